#!/bin/bash
# tools/suite_on_patch.sh <patch.diff> [go test -run regexp]  - runs the repository's own test suite (hooks off) on a scratch
# worktree of /repo HEAD with the patch applied and compares the result with /root/.vp/BASELINE.json. Removes the worktree.
set -u
PATCH="$1"; RUN="${2:-}"
. /verif/goenv.sh
W=$(mktemp -d /tmp/vsuite.XXXXXX)
trap 'git -C /repo worktree remove --force "$W/bbolt" >/dev/null 2>&1; rm -rf "$W"; git -C /repo worktree prune' EXIT
git -C /repo worktree add --detach "$W/bbolt" HEAD >/dev/null 2>&1 || exit 3
[ "$PATCH" = "-" ] || ( cd "$W/bbolt" && git apply "$PATCH" ) || { echo "PATCH DOES NOT APPLY"; exit 3; }
cd "$W/bbolt"
if [ -n "$RUN" ]; then "$GO" test -mod=mod -vet=off -count=1 -timeout 25m -run "$RUN" . 2>&1 | tail -25; exit 0; fi
"$GO" test -mod=mod -json -vet=off -count=1 -timeout 120m ./... > "$W/suite.json" 2>"$W/suite.err"
python3 - "$W/suite.json" <<'PY'
import json,sys
base=json.load(open('/root/.vp/BASELINE.json'))
res={}
for l in open(sys.argv[1]):
    try: e=json.loads(l)
    except: continue
    if e.get('Test') and e.get('Action') in('pass','fail','skip'):
        res[e['Package']+'::'+e['Test']]=e['Action']
npass=sum(1 for v in res.values() if v=='pass')
failed=sorted(t for t,v in res.items() if v=='fail' and '/tests/failpoint' not in t)
print('suite: %d pass; failing outside tests/failpoint: %s' % (npass, failed[:10]))
PY
