#!/bin/bash
# tools/mut.sh <PROP> <tier> <patch-file | ->   (developer aid; never touches /repo's working tree)
# Applies a change to a scratch worktree of /repo HEAD under /tmp, builds the harness against it
# (-modfile with the replace pointing at the worktree), runs the driver with a throw-away VERIF_DIR
# (so evidence/replays of /verif are not touched) and removes everything again.
# With "-" as patch the unchanged HEAD is used. Extra env: VERIF_SEED, LINES_OUT, EXTRA_TAGS.
set -u
PROP="$1"; TIER="$2"; PATCH="$3"
. /verif/goenv.sh
W=$(mktemp -d /tmp/vmut.XXXXXX)
trap 'git -C /repo worktree remove --force "$W/bbolt" >/dev/null 2>&1; rm -rf "$W"; git -C /repo worktree prune' EXIT
git -C /repo worktree add --detach "$W/bbolt" HEAD >/dev/null 2>&1 || { echo "worktree failed"; exit 3; }
if [ "$PATCH" != "-" ]; then
  ( cd "$W/bbolt" && git apply "$PATCH" ) || { echo "PATCH DOES NOT APPLY"; exit 3; }
fi
OUT="$W/out"; mkdir -p "$OUT/evidence"; cp /verif/known_findings.json "$OUT/"; ln -s /verif/golden "$OUT/golden"
sed "s#=> /repo#=> $W/bbolt#" /verif/harness/go.mod > "$W/go.mod"; cp /verif/harness/go.sum "$W/go.sum"
cd /verif/harness
"$GO" build -modfile="$W/go.mod" -tags verif -o "$OUT/vcheck" ./cmd/vcheck || { echo "mutant build failed"; exit 3; }
case "$PROP" in C02|C03|C14|C16) "$GO" build -modfile="$W/go.mod" -tags verif -race -o "$OUT/vcheck-race" ./cmd/vcheck || exit 3; export VCHECK_RACE="$OUT/vcheck-race";; esac
case "$PROP" in C04|C05) "$GO" build -modfile="$W/go.mod" -tags verif -gcflags=all=-d=checkptr -o "$OUT/vcheck-checkptr" ./cmd/vcheck || exit 3; export VCHECK_CHECKPTR="$OUT/vcheck-checkptr";; esac
case "$PROP" in C12|C15|C17|C19|C20) "$GO" build -modfile="$W/go.mod" -o "$OUT/bbolt" go.etcd.io/bbolt/cmd/bbolt || exit 3; export VCHECK_BBOLT="$OUT/bbolt";; esac
cd /verif
VERIF_DIR="$OUT" VERIF_NO_RETRY=1 BBOLT_VERIFY=all VERIF_SEED="${VERIF_SEED:-0}" timeout 2400 "$OUT/vcheck" "$PROP" "$TIER" 2>&1 | grep -v '^  \[' | cut -c1-400 | head -"${LINES_OUT:-12}"
echo "exit=${PIPESTATUS[0]}"
