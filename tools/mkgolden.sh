#!/bin/bash
# Regenerates /verif/golden from the PINNED commit of /repo (one-off; the result is committed).
set -eu
. /verif/goenv.sh
PINNED=e681957
W=$(mktemp -d /tmp/pinned.XXXX)
git -C /repo worktree add --detach "$W/bbolt" $PINNED >/dev/null
trap 'git -C /repo worktree remove --force "$W/bbolt"; rm -rf "$W"' EXIT
cd /verif/harness
sed "s#=> /repo#=> $W/bbolt#" go.mod > "$W/go.pinned.mod"; cp go.sum "$W/go.pinned.sum"
"$GO" build -modfile="$W/go.pinned.mod" -o "$W/goldengen" ./cmd/goldengen
rm -f /verif/golden/*.db.gz /verif/golden/manifest.json
PINNED=$PINNED "$W/goldengen" /verif/golden
du -sh /verif/golden
