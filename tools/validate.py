#!/usr/bin/env python3
import json, jsonschema, glob, sys
ok = True
try:
    jsonschema.validate(json.load(open('/verif/MANIFEST.json')), json.load(open('/root/.vp/MANIFEST.schema.json')))
    print("MANIFEST valid")
except Exception as e:
    ok = False; print("MANIFEST INVALID", e)
sch = json.load(open('/root/.vp/EVIDENCE.schema.json'))
for f in sorted(glob.glob('/verif/evidence/*.json')):
    try:
        jsonschema.validate(json.load(open(f)), sch)
    except Exception as e:
        ok = False; print("EVIDENCE INVALID", f, str(e)[:300])
print("evidence files:", len(glob.glob('/verif/evidence/*.json')))
sys.exit(0 if ok else 1)
