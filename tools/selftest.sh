#!/bin/bash
# tools/selftest.sh [pattern]  - runs every mutant (mutants/*.patch matching pattern) and every confirmed seeded change
# (seeded/*/patch.diff) against the quick check(s) of the properties it targets, on scratch worktrees (never /repo's
# working tree), and writes mutants/RESULTS.md. "fired" = the check exited 1 with a VIOLATION line.
set -u
cd /verif
PAT="${1:-}"
OUT=mutants/RESULTS.md
TMPO=$(mktemp)
props_for() { # file name -> property ids whose check is expected to fire
  case "$1" in
    fl_ignore_readers*|fl_releaserange*) echo "C02 C06 C09";;
    fl_never_release*|fl_remove_reader_noop*) echo "C10";;
    fl_release_minid_harmless*) echo "C02 C10";;
    hook_bypass*) echo "C01 C06";;
    c01_free_immediately*) echo "C01 C06";;
    c08_rollback_after_meta*) echo "C08";;
    c[0-9][0-9]_*) echo "C${1:1:2}";;
  esac
}
run() { # label patch props...
  local label="$1" patch="$2"; shift 2
  for p in "$@"; do
    res=$(LINES_OUT=400 tools/mut.sh "$p" quick "$patch" 2>&1)
    code=$(echo "$res" | sed -n 's/^exit=//p' | tail -1)
    nv=$(echo "$res" | grep -c '^VIOLATION')
    first=$(echo "$res" | grep -m1 -A1 '^VIOLATION' | tail -1 | cut -c1-160)
    [ "$nv" = 0 ] && first=$(echo "$res" | grep -m1 'seed=' | cut -c1-160)
    echo "| $label | $p | exit $code, $nv VIOLATION lines | ${first//|/\\|} |" >> "$TMPO"
    echo "$label $p exit=$code violations=$nv"
  done
}
for f in mutants/*.patch; do
  [ -n "${SEEDED_ONLY:-}" ] && continue
  b=$(basename "$f" .patch)
  [ -n "$PAT" ] && [[ "$b" != *$PAT* ]] && continue
  run "$b" "/verif/$f" $(props_for "$b")
done
for d in seeded/*/; do
  [ -n "${MUTANTS_ONLY:-}" ] && continue
  id=$(basename "$d")
  [ -n "$PAT" ] && [[ "seeded-$id" != *$PAT* ]] && continue
  [ -f "$d/patch.diff" ] || continue
  prop=${id:0:3}
  extra=$(jq -r '.also_run // [] | join(" ")' "$d/meta.json" 2>/dev/null)
  run "seeded/$id" "/verif/$d/patch.diff" $prop $extra
done
{ echo "# Mutant and seeded-change runs (tools/selftest.sh, quick tier, seed ${VERIF_SEED:-0})"; echo; echo "| change | check | result | first finding |"; echo "|---|---|---|---|"; sort "$TMPO"; } > "$OUT.new"
if [ -n "${RESULT_FILE:-}" ]; then mv "$OUT.new" "$RESULT_FILE"; elif [ -z "$PAT" ]; then mv "$OUT.new" "$OUT"; else cat "$OUT.new"; rm -f "$OUT.new"; fi
rm -f "$TMPO"
