chk("C04", "exploration", "runtime monitoring: model-based oracle (reference model M) over seeded API programs in child processes; checkptr/ASan passes",
    "Every API result, error and full dump of thousands of generated programs (all structural thresholds, 4 page sizes, both backends, reopen/rollback points) is compared with an independent reference model; held on the executions explored, not a proof.",
    "Trusted: the reference model M (harness/model), the generators' reach. checkptr/ASan see heap buffers only, not the mmap.", "DESIGN.md §4 C04")
