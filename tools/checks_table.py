chk("C04", "exploration", "runtime monitoring: model-based oracle (reference model M) over seeded API programs in child processes; checkptr/ASan passes",
    "Every API result, error and full dump of thousands of generated programs (all structural thresholds, 4 page sizes, both backends, reopen/rollback points) is compared with an independent reference model; held on the executions explored, not a proof.",
    "Trusted: the reference model M (harness/model), the generators' reach. checkptr/ASan see heap buffers only, not the mmap.", "DESIGN.md §4 C04")
chk("C05", "exploration", "runtime monitoring: cursor calls vs a sorted-list-with-position oracle over generated bucket states and dirty write transactions; loop-step budget hook for hangs; checkptr pass",
    "Every First/Last/Next/Prev/Seek result of seeded call sequences (plus complete scans in both directions) over bucket states from empty to 3-level trees, with uncommitted puts and whole-range deletes that leave emptied leaves, is compared with a sorted list with a position; a cursor that exceeds a logical step budget is a hang.",
    "Trusted: the sorted-list oracle; cursors are repositioned after mutations as the documentation requires.", "DESIGN.md §4 C05")
chk("C07", "exploration", "runtime monitoring: quiescent-point invariant (independent decoder D partitions the file; Tx.Check, DB.Stats, Tx.Page and the allocator export must agree)",
    "After every commit, rollback and reopen of bucket-delete/move-heavy programs the file image is partitioned by an independent decoder into meta/freelist/reachable-once/free-once and compared with Tx.Check, DB.Stats, Tx.Page and the exact allocator state.",
    "Trusted: D (harness/decode). Failed commits are covered by C08's accounting.", "DESIGN.md §4 C07")
chk("C12", "exploration", "runtime monitoring: independent version-2 decoder D on every file image the code writes + golden corpus of the pinned build",
    "Every file image produced by generated programs is decoded by a from-scratch reader of the published layout and must equal the API dump; 41 golden files written by the pinned build (incl. a >65535-id freelist) must decode and open to their recorded content.",
    "Trusted: D encodes my reading of the layout, validated against the pinned build's own files.", "DESIGN.md §4 C12")
