#!/usr/bin/env python3
"""tools/mkmeta.py <seed-id> <property> <caught_by comma list> <missed_by comma list or -> <needs text> [also_run comma list]
Writes seeded/<id>/meta.json from the arguments plus confirm.log."""
import json, sys, os
sid, prop, caught, missed, needs = sys.argv[1:6]
also = sys.argv[6].split(',') if len(sys.argv) > 6 and sys.argv[6] else []
d = '/verif/seeded/' + sid
log = open(d + '/confirm.log').read() if os.path.exists(d + '/confirm.log') else ''
meta = {
  "id": sid,
  "property": prop,
  "source": "independent sub-agent given only the property text and a scratch worktree of /repo",
  "needs_to_manifest": needs,
  "files": {"patch": "patch.diff", "demonstration": "demo/run.sh <tree>  (exit 0 = holds, non-zero = broken)", "notes": "notes.md"},
  "confirmed_by_me": {
    "how": "tools/confirm_seed.sh: patch applied to a fresh scratch worktree of /repo HEAD, go build ./... and -tags verif, demonstration run against the changed and an unchanged worktree, repository test suite (hooks off) on the changed tree compared with BASELINE.json (tools/suite_on_patch.sh); worktrees removed afterwards",
    "log": log.strip().splitlines(),
  },
  "checks_run_against_it": "tools/mut.sh <ID> quick seeded/%s/patch.diff (scratch worktree, -modfile replace; /repo untouched)" % sid,
  "caught_by": [c for c in caught.split(',') if c and c != '-'],
  "missed_by": [c for c in missed.split(',') if c and c != '-'],
  "also_run": also,
}
json.dump(meta, open(d + '/meta.json', 'w'), indent=1)
print("wrote", d + '/meta.json')
