#!/bin/bash
# tools/suite_queue.sh <seed ids...> : runs the repository's suite on each seeded change, one after the other, and appends the result to its confirm.log
for id in "$@"; do
  r=$(nice -n 5 /verif/tools/suite_on_patch.sh /verif/seeded/$id/patch.diff 2>&1 | tail -1)
  # the only load-sensitive baseline test: re-run alone if it is the only failure
  if echo "$r" | grep -q "TestDB_Open_InitialMmapSize"; then
    alone=$(/verif/tools/suite_on_patch.sh /verif/seeded/$id/patch.diff 'TestDB_Open_InitialMmapSize' 2>&1 | tail -1)
    r="$r ; TestDB_Open_InitialMmapSize re-run alone: $alone"
  fi
  sed -i '/^suite:/d' /verif/seeded/$id/confirm.log
  echo "$r" >> /verif/seeded/$id/confirm.log
  echo "$id $r"
done
