#!/usr/bin/env python3
"""Assembles mutants/RESULTS.md from the selftest outputs kept under /tmp/runlogs (developer aid)."""
import re, sys, glob, json, os
rows = {}
def add(change, check, result, first):
    rows[(change, check)] = (result.strip(), first.strip())
for f in sys.argv[1:]:
    for l in open(f, errors='replace'):
        if l.startswith('| ') and not l.startswith('| change') and not l.startswith('|---'):
            p = [x.strip() for x in l.strip().strip('|').split('|')]
            if len(p) >= 4:
                add(p[0], p[1], p[2], ' | '.join(p[3:]))
out = ["# Mutant and seeded-change runs (tools/selftest.sh -> tools/mut.sh, quick tier, seed 0)", "",
       "Each row: a change applied to a scratch worktree of /repo HEAD, the harness built against it, the check run.",
       "`exit 1` with VIOLATION lines = the check fired. Mutants ending in `_harmless` do not break the property: the check must stay silent (`exit 0`).", "",
       "| change | check | result | first finding |", "|---|---|---|---|"]
for (c, k) in sorted(rows):
    r, f = rows[(c, k)]
    f = re.sub(r'/tmp/vmut\.[A-Za-z0-9]+/out/', '', f)
    out.append("| %s | %s | %s | %s |" % (c, k, r, f))
open('/verif/mutants/RESULTS.md', 'w').write('\n'.join(out) + '\n')
print(len(rows), "rows")
