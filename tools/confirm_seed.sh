#!/bin/bash
# tools/confirm_seed.sh <ID> [suffix]  - independently confirms a seeded change produced by a sub-agent in /tmp/seed/<ID>/out:
#  applies patch.diff to a fresh scratch worktree of /repo HEAD, builds, runs the demonstration against the changed
#  and the unchanged tree, runs the repository's test suite on the changed tree and compares with BASELINE.json.
# Writes /verif/seeded/<ID><suffix>/{patch.diff,demo/,notes.md,confirm.log}; meta.json is written by hand afterwards.
set -u
ID="$1"; SUF="${2:-}"
SRC=${SEEDROOT:-/tmp/seed}/$ID/out
. /verif/goenv.sh
W=/tmp/confirm/$ID$SUF
rm -rf "$W"; mkdir -p "$W"
git -C /repo worktree prune
git -C /repo worktree add --detach "$W/changed" HEAD >/dev/null 2>&1 || exit 1
git -C /repo worktree add --detach "$W/orig" HEAD >/dev/null 2>&1 || exit 1
trap 'git -C /repo worktree remove --force "$W/changed"; git -C /repo worktree remove --force "$W/orig"; rm -rf "$W"' EXIT
OUT=/verif/seeded/$ID$SUF
mkdir -p "$OUT"
cp "$SRC/patch.diff" "$OUT/patch.diff"; rm -rf "$OUT/demo"; cp -r "$SRC/demo" "$OUT/demo"; cp "$SRC/notes.md" "$OUT/notes.md" 2>/dev/null
LOG="$OUT/confirm.log"; : > "$LOG"
( cd "$W/changed" && git apply "$OUT/patch.diff" ) >>"$LOG" 2>&1 || { echo "PATCH DOES NOT APPLY" | tee -a "$LOG"; exit 1; }
echo "touched: $(cd "$W/changed" && git diff --stat | tail -1)" | tee -a "$LOG"
if (cd "$W/changed" && git diff --name-only | grep -q '_test.go'); then echo "TOUCHES TEST FILES" | tee -a "$LOG"; fi
( cd "$W/changed" && "$GO" build ./... && "$GO" build -tags verif ./... ) >>"$LOG" 2>&1 && echo "build: ok" | tee -a "$LOG" || { echo "build: FAILED" | tee -a "$LOG"; exit 1; }
chmod +x "$OUT/demo/run.sh" 2>/dev/null
( cd "$OUT/demo" && timeout 900 bash ./run.sh "$W/changed" ) >"$W/demo_changed.txt" 2>&1; RC1=$?
( cd "$OUT/demo" && timeout 900 bash ./run.sh "$W/orig" ) >"$W/demo_orig.txt" 2>&1; RC2=$?
echo "demo on changed tree: exit $RC1 ; on unchanged tree: exit $RC2" | tee -a "$LOG"
tail -5 "$W/demo_changed.txt" | sed 's/^/   changed> /' >>"$LOG"
tail -3 "$W/demo_orig.txt" | sed 's/^/   orig> /' >>"$LOG"
if [ "${SKIP_SUITE:-}" = 1 ]; then echo "suite: skipped" | tee -a "$LOG"; exit 0; fi
( cd "$W/changed" && "$GO" test -mod=mod -json -vet=off -count=1 -timeout 25m ./... ) > "$W/suite.json" 2>"$W/suite.err"
python3 - "$W/suite.json" <<'PY' | tee -a "$LOG"
import json,sys
base=json.load(open('/root/.vp/BASELINE.json'))
stable=set(base['stable_pass']); flaky=set(base.get('flaky',[]))
res={}
for l in open(sys.argv[1]):
    try: e=json.loads(l)
    except: continue
    if e.get('Test') and e.get('Action') in('pass','fail','skip'):
        res[e['Package']+'::'+e['Test']]=e['Action']
missing=sorted(t for t in stable if res.get(t)!='pass')
print('suite: %d pass, stable tests not passing: %s' % (sum(1 for v in res.values() if v=='pass'), missing[:8]))
PY
