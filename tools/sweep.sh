#!/bin/bash
# tools/sweep.sh <tier> <seed>... : runs every registered check at the given seeds (evidence goes to a scratch VERIF_DIR, not /verif/evidence)
# and prints one line per (check, seed). Exit 1 if any run did not exit 0.
TIER="$1"; shift
cd "$(dirname "$0")/.."
. ./goenv.sh
./setup.sh >/dev/null 2>&1 || { echo "setup failed"; exit 3; }
OUT=$(mktemp -d /tmp/vsweep.XXXXXX); mkdir -p "$OUT/evidence"; cp known_findings.json "$OUT/"; ln -s "$PWD/golden" "$OUT/golden"
B="$PWD/.build"
rc=0
for seed in "$@"; do
  for p in $(jq -r '.checks[].property_id' MANIFEST.json); do
    s=$(date +%s)
    res=$(VERIF_DIR="$OUT" VERIF_SEED=$seed BBOLT_VERIFY=all VCHECK_RACE=$B/vcheck-race VCHECK_CHECKPTR=$B/vcheck-checkptr VCHECK_BBOLT=$B/bbolt "$B/vcheck" $p $TIER 2>&1)
    code=$?
    e=$(( $(date +%s) - s ))
    echo "$p seed=$seed exit=$code ${e}s $(echo "$res" | grep -m1 -E '^(VIOLATION|INCONCLUSIVE)' | cut -c1-200)"
    [ $code -ne 0 ] && { rc=1; echo "$res" | grep -v '^  \[' | tail -5 | cut -c1-300 | sed 's/^/      /'; }
  done
done
rm -rf "$OUT"
exit $rc
