#!/bin/bash
# tools/mutrun.sh <PROP> <tier> -- <command that mutates /repo>   (developer aid)
# Applies a change to /repo's working tree, runs ./check with a throw-away VERIF_DIR, restores /repo.
PROP="$1"; TIER="$2"; shift 3
cd /repo || exit 1
if [ -n "$(git status --porcelain)" ]; then echo "/repo not clean"; exit 1; fi
eval "$@" || { git revert --abort 2>/dev/null; git reset -q --hard HEAD; exit 1; }
OUT=$(mktemp -d /tmp/vmut.XXXX)
mkdir -p $OUT/evidence; cp /verif/known_findings.json $OUT/; ln -s /verif/golden $OUT/golden
( cd /verif && . ./goenv.sh && cd harness && $GO build -tags verif -o $OUT/vcheck ./cmd/vcheck && $GO build -tags verif -race -o $OUT/vcheck-race ./cmd/vcheck && $GO build -o $OUT/bbolt go.etcd.io/bbolt/cmd/bbolt )
RC=$?
cd /repo; git checkout -q -- . ; git revert --abort 2>/dev/null; git reset -q --hard HEAD; git clean -fdq
if [ $RC -ne 0 ]; then echo "mutant build failed"; rm -rf $OUT; exit 1; fi
( cd /verif && VERIF_DIR=$OUT VCHECK_RACE=$OUT/vcheck-race VCHECK_BBOLT=$OUT/bbolt BBOLT_VERIFY=all VERIF_SEED=${VERIF_SEED:-0} timeout 3000 $OUT/vcheck $PROP $TIER 2>&1 | grep -v "^  \[" | head -${LINES_OUT:-12}; )
rm -rf $OUT
