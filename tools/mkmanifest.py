#!/usr/bin/env python3
"""Regenerates /verif/MANIFEST.json from the table below (single source of truth for the interface)."""
import json, os, subprocess
V = os.path.dirname(os.path.dirname(os.path.abspath(__file__)))
BASE_OFF = "cd /repo && GOTOOLCHAIN=local GOFLAGS=-mod=mod GOPROXY=off GOSUMDB=off /root/go/pkg/mod/golang.org/toolchain@v0.0.1-go1.25.11.linux-amd64/bin/go test -mod=mod -json -vet=off -count=1 -timeout 25m ./..."

# id: (category, technique, level text, level note, design ref)
CHECKS = {}
def chk(pid, cat, tech, text, note, ref):
    CHECKS[pid] = dict(cat=cat, tech=tech, text=text, note=note, ref=ref)

exec(open(os.path.join(V, "tools", "checks_table.py")).read())

props = [json.loads(l)["id"] for l in open(os.path.join(V, "properties.jsonl"))]
hook_commits = open(os.path.join(V, "tools", "hook_commits.txt")).read().split()
m = {
 "version": 1,
 "setup_cmd": "./setup.sh",
 "hooks": {
  "guard": "verif",
  "enable": "go build -tags verif (the harness module /verif/harness replaces go.etcd.io/bbolt with /repo; ./check does this)",
  "baseline_off_cmd": BASE_OFF,
  "source_commits": hook_commits,
  "add_only": True,
 },
 "engines": [
  {"name": "vcheck", "path": "harness/cmd/vcheck", "serves_properties": sorted(CHECKS), "kind_free_text":
   "Go harness (module go.etcd.io/bbolt/verifh): reference model M, independent format decoder D, I/O hook tracer with fault injection, program generators/executor, one driver per property; cases run in child processes; race detector / checkptr / ASan flavours"},
 ],
 "checks": [],
 "notes": "Technique family: runtime monitoring and sanitizers. ./check <ID> quick|thorough rebuilds bbolt (tag verif) and the harness from /repo's working tree. Exit 0 held / 1 VIOLATION / 2 inconclusive. known_findings.json lists genuine defects (all repaired by fix: commits; no entry suppresses anything).",
 "not_applicable": [],
}
for p in props:
    if p in CHECKS:
        c = CHECKS[p]
        m["checks"].append({
         "property_id": p,
         "quick_cmd": "./check %s quick" % p,
         "thorough_cmd": "./check %s thorough" % p,
         "evidence_file": "/verif/evidence/%s.json" % p,
         "replay_cmd_template": "./check %s quick --replay {path}" % p,
         "engine": "vcheck",
         "level_claimed": {"category": c["cat"], "text": c["text"], "design_ref": c["ref"]},
         "level_note": c["note"],
         "technique": c["tech"],
        })
    else:
        m["not_applicable"].append({"property_id": p, "reason": "not claimed yet: the monitor for this property is still being built (see DESIGN.md section 4); nothing about the technique prevents it"})
json.dump(m, open(os.path.join(V, "MANIFEST.json"), "w"), indent=1)
print("checks:", len(m["checks"]), "not_applicable:", len(m["not_applicable"]))
