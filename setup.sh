#!/bin/bash
# setup_cmd: builds every flavour of the harness once, offline, from files on disk only.
set -u
VERIF="$(cd "$(dirname "$0")" && pwd)"
. "$VERIF/goenv.sh"
cd "$VERIF/harness" || exit 1
[ -f go.sum ] || cp /repo/go.sum go.sum
B="$VERIF/.build"; mkdir -p "$B"
"$GO" build -tags verif -o "$B/vcheck" ./cmd/vcheck || exit 1
"$GO" build -tags verif -race -o "$B/vcheck-race" ./cmd/vcheck || exit 1
"$GO" build -tags verif -gcflags=all=-d=checkptr -o "$B/vcheck-checkptr" ./cmd/vcheck || exit 1
"$GO" build -o "$B/bbolt" go.etcd.io/bbolt/cmd/bbolt || exit 1
echo "setup ok: $("$GO" version)"
