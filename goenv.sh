# Go environment used by every script under /verif (does not depend on the caller's environment).
export GOTOOLCHAIN=local GOFLAGS=-mod=mod GOPROXY=off GOSUMDB=off GONOSUMDB='*' GONOSUMCHECK=1 GOFLAGS=-mod=mod
export CARGO_NET_OFFLINE=true PIP_NO_INDEX=1
GO=/root/go/pkg/mod/golang.org/toolchain@v0.0.1-go1.25.11.linux-amd64/bin/go
if [ ! -x "$GO" ]; then
  GO="$(command -v go1.26.8 || true)"
  [ -n "$GO" ] || GO=/opt/veriftools/go1.26.8/bin/go
fi
export GO
