// Package model is the reference model M: a tree of byte-string-keyed maps,
// each with a counter. It shares no code with bbolt.
package model

import (
	"bytes"
	"fmt"
	"sort"
	"strconv"
)

// Error names used by the model. The executor maps bbolt's error values to
// these names; "" means success.
const (
	OK                      = ""
	ErrBucketExists         = "ErrBucketExists"
	ErrBucketNotFound       = "ErrBucketNotFound"
	ErrBucketNameReq        = "ErrBucketNameRequired"
	ErrIncompatible         = "ErrIncompatibleValue"
	ErrKeyRequired          = "ErrKeyRequired"
	ErrKeyTooLarge          = "ErrKeyTooLarge"
	ErrValueTooLarge        = "ErrValueTooLarge"
	ErrTxNotWritable        = "ErrTxNotWritable"
	ErrTxClosed             = "ErrTxClosed"
	ErrSameBuckets          = "ErrSameBuckets"
	ErrDatabaseRO           = "ErrDatabaseReadOnly"
	ErrAny                  = "<any error>" // some error is required, which one is not documented
	MaxKeySize              = 32768
	MaxValueSize      int64 = (1 << 31) - 2
)

// Bucket is one node of the model tree. Keys of KV and Sub share one key space.
type Bucket struct {
	Seq uint64
	KV  map[string][]byte
	Sub map[string]*Bucket
}

func New() *Bucket { return &Bucket{KV: map[string][]byte{}, Sub: map[string]*Bucket{}} }

func (b *Bucket) Clone() *Bucket {
	c := New()
	c.Seq = b.Seq
	for k, v := range b.KV {
		c.KV[k] = v // values are never mutated in place
	}
	for k, s := range b.Sub {
		c.Sub[k] = s.Clone()
	}
	return c
}

// Keys returns all keys (values and nested buckets) in byte order.
func (b *Bucket) Keys() []string {
	ks := make([]string, 0, len(b.KV)+len(b.Sub))
	for k := range b.KV {
		ks = append(ks, k)
	}
	for k := range b.Sub {
		ks = append(ks, k)
	}
	sort.Strings(ks)
	return ks
}

// At resolves a bucket path; nil if some component is missing.
func (b *Bucket) At(path []string) *Bucket {
	cur := b
	for _, n := range path {
		cur = cur.Sub[n]
		if cur == nil {
			return nil
		}
	}
	return cur
}

// AllPaths lists the paths of all buckets below b (not b itself), sorted.
func (b *Bucket) AllPaths() [][]string {
	var out [][]string
	var rec func(cur *Bucket, p []string)
	rec = func(cur *Bucket, p []string) {
		names := make([]string, 0, len(cur.Sub))
		for k := range cur.Sub {
			names = append(names, k)
		}
		sort.Strings(names)
		for _, k := range names {
			np := append(append([]string{}, p...), k)
			out = append(out, np)
			rec(cur.Sub[k], np)
		}
	}
	rec(b, nil)
	return out
}

func fnv32(b []byte) uint32 {
	var h uint32 = 2166136261
	for _, c := range b {
		h = (h ^ uint32(c)) * 16777619
	}
	return h
}

// KeyLabel renders a key compactly and unambiguously.
func KeyLabel(k string) string {
	if len(k) <= 24 {
		return strconv.Quote(k)
	}
	return fmt.Sprintf("%s..len%d#%08x", strconv.Quote(k[:12]), len(k), fnv32([]byte(k)))
}

// ValLabel renders a value as length and hash.
func ValLabel(v []byte) string { return fmt.Sprintf("%d:%08x", len(v), fnv32(v)) }

// Dump renders the whole tree as canonical lines. The executor renders the
// real database the same way, so two dumps are equal iff the contents are.
func (b *Bucket) Dump() []string {
	var out []string
	b.dump("", &out)
	return out
}

func (b *Bucket) dump(pfx string, out *[]string) {
	*out = append(*out, fmt.Sprintf("%s#seq=%d", pfx, b.Seq))
	for _, k := range b.Keys() {
		if s, ok := b.Sub[k]; ok {
			s.dump(pfx+"/"+KeyLabel(k), out)
		} else {
			*out = append(*out, fmt.Sprintf("%s/%s=%s", pfx, KeyLabel(k), ValLabel(b.KV[k])))
		}
	}
}

// DiffDumps returns "" if equal, else a short description of the first difference.
func DiffDumps(want, got []string) string {
	n := len(want)
	if len(got) < n {
		n = len(got)
	}
	for i := 0; i < n; i++ {
		if want[i] != got[i] {
			return fmt.Sprintf("line %d: model %s | real %s (model %d lines, real %d lines)", i, want[i], got[i], len(want), len(got))
		}
	}
	if len(want) != len(got) {
		var extra string
		if len(want) > n {
			extra = "model has extra " + want[n]
		} else {
			extra = "real has extra " + got[n]
		}
		return fmt.Sprintf("length differs: model %d lines, real %d lines; %s", len(want), len(got), extra)
	}
	return ""
}

// Structure mirrors bbolt's BucketStructure (Inspect).
type Structure struct {
	Name     string
	KeyN     int
	Children []Structure
}

func (b *Bucket) Inspect(name string) Structure {
	s := Structure{Name: name, KeyN: len(b.KV)}
	names := make([]string, 0, len(b.Sub))
	for k := range b.Sub {
		names = append(names, k)
	}
	sort.Strings(names)
	for _, k := range names {
		s.Children = append(s.Children, b.Sub[k].Inspect(k))
	}
	return s
}

func (s Structure) String() string {
	var buf bytes.Buffer
	fmt.Fprintf(&buf, "%s[%d", KeyLabel(s.Name), s.KeyN)
	for _, c := range s.Children {
		buf.WriteString(" ")
		buf.WriteString(c.String())
	}
	buf.WriteString("]")
	return buf.String()
}

// ---- write operations (applied to the private copy of a write transaction)

func (b *Bucket) has(k string) (isBucket, isKey bool) {
	_, isBucket = b.Sub[k]
	_, isKey = b.KV[k]
	return
}

// CreateBucket on bucket b.
func (b *Bucket) CreateBucket(name string) string {
	if len(name) == 0 {
		return ErrBucketNameReq
	}
	if isB, isK := b.has(name); isB {
		return ErrBucketExists
	} else if isK {
		return ErrIncompatible
	}
	b.Sub[name] = New()
	return OK
}

func (b *Bucket) CreateBucketIfNotExists(name string) string {
	if len(name) == 0 {
		return ErrBucketNameReq
	}
	if isB, isK := b.has(name); isB {
		return OK
	} else if isK {
		return ErrIncompatible
	}
	b.Sub[name] = New()
	return OK
}

func (b *Bucket) DeleteBucket(name string) string {
	if isB, isK := b.has(name); isK {
		return ErrIncompatible
	} else if !isB {
		return ErrBucketNotFound
	}
	delete(b.Sub, name)
	return OK
}

func (b *Bucket) Put(k string, v []byte) string {
	if len(k) == 0 {
		return ErrKeyRequired
	} else if len(k) > MaxKeySize {
		return ErrKeyTooLarge
	} else if int64(len(v)) > MaxValueSize {
		return ErrValueTooLarge
	}
	if isB, _ := b.has(k); isB {
		return ErrIncompatible
	}
	b.KV[k] = v
	return OK
}

func (b *Bucket) Delete(k string) string {
	if isB, _ := b.has(k); isB {
		return ErrIncompatible
	}
	delete(b.KV, k)
	return OK
}

// Get returns (value, present).
func (b *Bucket) Get(k string) ([]byte, bool) {
	v, ok := b.KV[k]
	return v, ok
}

func pathEq(a, b []string) bool {
	if len(a) != len(b) {
		return false
	}
	for i := range a {
		if a[i] != b[i] {
			return false
		}
	}
	return true
}

func hasPrefix(p, prefix []string) bool {
	return len(p) >= len(prefix) && pathEq(p[:len(prefix)], prefix)
}

// MoveBucket moves root.At(src).Sub[name] to root.At(dst). Both paths must exist.
func MoveBucket(root *Bucket, src []string, name string, dst []string) string {
	sb, db := root.At(src), root.At(dst)
	isB, isK := sb.has(name)
	if !isB && !isK {
		return ErrBucketNotFound
	} else if isK {
		return ErrIncompatible
	}
	if pathEq(src, dst) {
		return ErrSameBuckets
	}
	if dB, dK := db.has(name); dB {
		return ErrBucketExists
	} else if dK {
		return ErrIncompatible
	}
	// A bucket cannot be moved into itself or below itself. No error value is
	// documented for this; some error is required and the state must not change.
	moved := append(append([]string{}, src...), name)
	if hasPrefix(dst, moved) {
		return ErrAny
	}
	db.Sub[name] = sb.Sub[name]
	delete(sb.Sub, name)
	return OK
}

// ---- cursor model: a sorted list with a position in [0, n]

type Cursor struct {
	B    *Bucket
	keys []string
	pos  int
	set  bool
}

func NewCursor(b *Bucket) *Cursor { return &Cursor{B: b, keys: b.Keys()} }

// result of a cursor call: key "" + present=false means nil.
type CurRes struct {
	Present  bool
	Key      string
	Val      []byte
	IsBucket bool
}

func (c *Cursor) cur() CurRes {
	if c.pos < 0 || c.pos >= len(c.keys) {
		return CurRes{}
	}
	k := c.keys[c.pos]
	if _, ok := c.B.Sub[k]; ok {
		return CurRes{Present: true, Key: k, IsBucket: true}
	}
	return CurRes{Present: true, Key: k, Val: c.B.KV[k]}
}

func (c *Cursor) Positioned() bool { return c.set }

func (c *Cursor) First() CurRes { c.set = true; c.pos = 0; return c.cur() }
func (c *Cursor) Last() CurRes {
	c.set = true
	c.pos = len(c.keys) - 1
	if c.pos < 0 {
		c.pos = 0
	}
	return c.cur()
}
func (c *Cursor) Seek(t string) CurRes {
	c.set = true
	c.pos = sort.SearchStrings(c.keys, t)
	return c.cur()
}
func (c *Cursor) Next() CurRes {
	n := len(c.keys)
	if c.pos >= n-1 {
		// running off the end: nil, the position stays where it is
		return CurRes{}
	}
	c.pos++
	return c.cur()
}
func (c *Cursor) Prev() CurRes {
	if c.pos <= 0 {
		c.pos = 0
		return CurRes{}
	}
	c.pos--
	return c.cur()
}

// DB is the versioned model of a database.
type DB struct {
	Versions map[uint64]*Bucket // committed versions by transaction id
	Newest   uint64
}

func NewDB() *DB { return &DB{Versions: map[uint64]*Bucket{}} }
