package decode

import (
	"bytes"
	"fmt"
	"sort"
)

// Byte-level corruption of a consistent image, for the integrity-check
// sweep (C19). Like the decoder, this file knows the published layout only.
// Every function returns a fresh image; nil if the mutation is not possible
// (no room, not eligible).

// Mutant is one corrupted image.
type Mutant struct {
	Class  string // corruption class (see Classes)
	Target string // human-readable target
	Edits  []Edit // byte edits that turn the base image into the mutant
	Pure   bool   // the listed corruption is the only inconsistency D expects
}

// Edit overwrites len(Data) bytes at offset Off.
type Edit struct {
	Off  int
	Data []byte
}

// Apply returns a fresh image with the mutant's edits applied to base.
func (m Mutant) Apply(base []byte) []byte {
	out := append([]byte(nil), base...)
	for _, e := range m.Edits {
		copy(out[e.Off:], e.Data)
	}
	return out
}

func u64(v uint64) []byte { b := make([]byte, 8); le.PutUint64(b, v); return b }
func u16(v uint16) []byte { b := make([]byte, 2); le.PutUint16(b, v); return b }

// Classes lists the corruption classes of the property.
var Classes = []string{
	"unreachable-unfreed",
	"reachable-free:first",
	"reachable-free:overflow",
	"double-ref:bucket-root",
	"double-ref:branch-elem",
	"double-free",
	"bad-type",
	"key-order:leaf",
	"key-order:branch",
	"key-order:parent-lo",
	"key-order:parent-hi",
	"key-order:ancestor-hi",
}

// rewriteFreelist returns the edits that write ids into the freelist allocation of r;
// nil if they do not fit or the 0xFFFF convention is (or would be) in use.
func rewriteFreelist(img []byte, r *Result, ids []uint64) []Edit {
	if !r.HasFreelist || len(r.FreelistPages) == 0 || len(ids) >= 0xFFFF {
		return nil
	}
	room := len(r.FreelistPages)*r.PageSize - PageHeaderSize
	if 8*len(ids) > room {
		return nil
	}
	off := int(r.FreelistPages[0]) * r.PageSize
	if le.Uint16(img[off+10:]) == 0xFFFF {
		return nil
	}
	data := make([]byte, 8*len(ids))
	for i, id := range ids {
		le.PutUint64(data[8*i:], id)
	}
	return []Edit{{off + 10, u16(uint16(len(ids)))}, {off + PageHeaderSize, data}}
}

func withoutIndex(ids []uint64, i int) []uint64 {
	out := append([]uint64(nil), ids[:i]...)
	return append(out, ids[i+1:]...)
}

func withInserted(ids []uint64, id uint64) []uint64 {
	out := append(append([]uint64(nil), ids...), id)
	sort.Slice(out, func(i, j int) bool { return out[i] < out[j] })
	return out
}

// sortedPageIDs returns the first ids of all tree pages in ascending order.
func (r *Result) sortedPageIDs() []uint64 {
	var ids []uint64
	for id := range r.Pages {
		ids = append(ids, id)
	}
	sort.Slice(ids, func(i, j int) bool { return ids[i] < ids[j] })
	return ids
}

// subtreePages returns every page (incl. overflow) of the tree rooted at page id, nested buckets included.
func (r *Result) subtreePages(id uint64, out *[]uint64) {
	pi := r.Pages[id]
	if pi == nil {
		return
	}
	for i := uint64(0); i <= uint64(pi.Overflow); i++ {
		*out = append(*out, id+i)
	}
	for _, c := range pi.Children {
		r.subtreePages(c, out)
	}
	for _, rt := range pi.BucketRt {
		if rt != 0 {
			r.subtreePages(rt, out)
		}
	}
}

// leafElem returns the offsets of leaf element i of the page starting at byte offset base.
func leafElem(img []byte, base, i int) (keyOff, ksz, valOff, vsz int) {
	eo := base + PageHeaderSize + i*LeafElemSize
	pos := int(le.Uint32(img[eo+4:]))
	ksz = int(le.Uint32(img[eo+8:]))
	vsz = int(le.Uint32(img[eo+12:]))
	return eo + pos, ksz, eo + pos + ksz, vsz
}

func branchElem(img []byte, base, i int) (keyOff, ksz, pgidOff int) {
	eo := base + PageHeaderSize + i*BranchElemSize
	pos := int(le.Uint32(img[eo:]))
	ksz = int(le.Uint32(img[eo+4:]))
	return eo + pos, ksz, eo + 8
}

// Mutants enumerates every eligible single corruption of every class on the
// consistent image img (already decoded into r, which must be error-free).
// emit returns false to stop.
func Mutants(img []byte, r *Result, emit func(m Mutant) bool) {
	ps := r.PageSize
	ids := r.sortedPageIDs()
	free := append([]uint64(nil), r.Free...)
	sorted := sort.SliceIsSorted(free, func(i, j int) bool { return free[i] < free[j] })

	// ---- freelist classes
	if r.HasFreelist && sorted {
		for i, id := range free {
			if out := rewriteFreelist(img, r, withoutIndex(free, i)); out != nil {
				if !emit(Mutant{"unreachable-unfreed", fmt.Sprintf("free id %d removed from the freelist", id), out, true}) {
					return
				}
			}
		}
		for i, id := range free {
			if out := rewriteFreelist(img, r, withInserted(free, id)); out != nil {
				_ = i
				if !emit(Mutant{"double-free", fmt.Sprintf("free id %d listed twice", id), out, true}) {
					return
				}
			}
		}
		for _, id := range ids {
			pi := r.Pages[id]
			if out := rewriteFreelist(img, r, withInserted(free, id)); out != nil {
				if !emit(Mutant{"reachable-free:first", fmt.Sprintf("reachable %s page %d added to the freelist", kindOf(pi.Flags), id), out, true}) {
					return
				}
			}
			for o := uint64(1); o <= uint64(pi.Overflow); o++ {
				if out := rewriteFreelist(img, r, withInserted(free, id+o)); out != nil {
					if !emit(Mutant{"reachable-free:overflow", fmt.Sprintf("overflow page %d of reachable page %d added to the freelist", id+o, id), out, true}) {
						return
					}
				}
			}
		}
	}

	// ---- double reference through a bucket root pointer: bucket element (page p, index i) -> root of another bucket
	type bref struct {
		page uint64
		idx  int
		root uint64
	}
	var brefs []bref
	for _, id := range ids {
		pi := r.Pages[id]
		if pi.Flags != FlagLeaf {
			continue
		}
		for i, rt := range pi.BucketRt {
			if rt != 0 {
				brefs = append(brefs, bref{id, i, rt})
			}
		}
	}
	for _, a := range brefs {
		for _, b := range brefs {
			if a == b || a.root == b.root {
				continue
			}
			// b's tree must not contain a's element page (no cycle) and a's old tree must not contain b's root
			var bsub, asub []uint64
			r.subtreePages(b.root, &bsub)
			r.subtreePages(a.root, &asub)
			if containsID(bsub, a.page) || containsID(asub, b.root) || containsID(asub, b.page) {
				continue
			}
			_, _, vo, vsz := leafElem(img, int(a.page)*ps, a.idx)
			if vsz < BucketHdrSize {
				continue
			}
			out := []Edit{{vo, u64(b.root)}}
			pure := false
			if r.HasFreelist && sorted {
				// the orphaned tree of a goes onto the freelist so that the double reference is the only inconsistency
				nf := append([]uint64(nil), free...)
				nf = append(nf, asub...)
				sort.Slice(nf, func(i, j int) bool { return nf[i] < nf[j] })
				if o2 := rewriteFreelist(img, r, nf); o2 != nil {
					out, pure = append(out, o2...), true
				}
			}
			if !emit(Mutant{"double-ref:bucket-root", fmt.Sprintf("bucket element %d of leaf %d now points at root page %d of another bucket (was %d)", a.idx, a.page, b.root, a.root), out, pure}) {
				return
			}
			break // one target page per source element is enough; all elements are covered
		}
	}

	// ---- double reference through a branch element: element i of branch p -> a page referenced elsewhere (non-ancestor)
	for _, id := range ids {
		pi := r.Pages[id]
		if pi.Flags != FlagBranch {
			continue
		}
		stack := r.Use[id].Stack
		for i := range pi.Children {
			// candidate: the sibling referenced by the neighbouring element (same level, certainly not an ancestor)
			j := i + 1
			if j >= len(pi.Children) {
				j = i - 1
			}
			if j < 0 || pi.Children[j] == pi.Children[i] || containsID(stack, pi.Children[j]) {
				continue
			}
			_, _, po := branchElem(img, int(id)*ps, i)
			out := []Edit{{po, u64(pi.Children[j])}}
			if !emit(Mutant{"double-ref:branch-elem", fmt.Sprintf("element %d of branch %d now points at page %d like element %d (was %d)", i, id, pi.Children[j], j, pi.Children[i]), out, false}) {
				return
			}
		}
	}

	// ---- invalid page type (neither the branch nor the leaf bit)
	for _, id := range ids {
		for _, fl := range []uint16{0x00, FlagMeta, FlagFreelist, 0x20, 0x14, 0x8000} {
			out := []Edit{{int(id)*ps + 8, u16(fl)}}
			if !emit(Mutant{"bad-type", fmt.Sprintf("flags of reachable page %d set to %#x", id, fl), out, false}) {
				return
			}
		}
	}

	// ---- key order
	for _, id := range ids {
		pi := r.Pages[id]
		base := int(id) * ps
		n := len(pi.Keys)
		cls := "key-order:leaf"
		keyAt := func(buf []byte, i int) (int, int) {
			ko, ksz, _, _ := leafElem(buf, base, i)
			return ko, ksz
		}
		if pi.Flags == FlagBranch {
			cls = "key-order:branch"
			keyAt = func(buf []byte, i int) (int, int) {
				ko, ksz, _ := branchElem(buf, base, i)
				return ko, ksz
			}
		}
		// (a) swap two neighbouring keys of equal length / make key i equal to key i+1
		for i := 0; i+1 < n; i++ {
			if len(pi.Keys[i]) == len(pi.Keys[i+1]) {
				k1, s1 := keyAt(img, i)
				k2, _ := keyAt(img, i+1)
				out := []Edit{{k1, append([]byte(nil), img[k2:k2+s1]...)}, {k2, append([]byte(nil), img[k1:k1+s1]...)}}
				if !emit(Mutant{cls, fmt.Sprintf("keys %d and %d of page %d swapped", i, i+1, id), out, cls == "key-order:leaf"}) {
					return
				}
				out = []Edit{{k1, append([]byte(nil), img[k2:k2+s1]...)}}
				if !emit(Mutant{cls, fmt.Sprintf("key %d of page %d made equal to key %d", i, id, i+1), out, cls == "key-order:leaf"}) {
					return
				}
			} else if len(pi.Keys[i]) > 0 && pi.Keys[i][0] != 0xFF && (len(pi.Keys[i+1]) == 0 || pi.Keys[i+1][0] != 0xFF) {
				k1, _ := keyAt(img, i)
				out := []Edit{{k1, []byte{0xFF}}}
				if !emit(Mutant{cls, fmt.Sprintf("first byte of key %d of page %d raised to 0xFF (next key starts lower)", i, id), out, cls == "key-order:leaf"}) {
					return
				}
			}
		}
		// (b) against the parent's separators (non-root pages only)
		if pi.IsRoot || pi.Parent == 0 || n == 0 {
			continue
		}
		par := r.Pages[pi.Parent]
		if par == nil {
			continue
		}
		ci := -1
		for i, c := range par.Children {
			if c == id {
				ci = i
			}
		}
		if ci < 0 {
			continue
		}
		// lower side: first key pushed below the parent's separator
		if sep := par.Keys[ci]; len(sep) > 0 && len(pi.Keys[0]) > 0 && sep[0] > 0 && (ci > 0 || true) {
			k0, _ := keyAt(img, 0)
			out := []Edit{{k0, []byte{0x00}}}
			lowered := append([]byte{0x00}, pi.Keys[0][1:]...)
			if bytes.Compare(lowered, sep) < 0 {
				if !emit(Mutant{"key-order:parent-lo", fmt.Sprintf("first key of page %d lowered below its separator in parent %d", id, pi.Parent), out, false}) {
					return
				}
			}
		}
		// upper side, bound inherited from a higher ancestor: the page is the last child of its parent, so its
		// upper bound is the next separator of some grandparent (a walk that bounds only siblings misses this)
		if ci+1 == len(par.Children) && pi.Hi != nil && len(pi.Keys[n-1]) > 0 && len(pi.Hi) > 0 && pi.Hi[0] != 0xFF {
			kl, _ := keyAt(img, n-1)
			out := []Edit{{kl, []byte{0xFF}}}
			if !emit(Mutant{"key-order:ancestor-hi", fmt.Sprintf("last key of page %d (last child of %d) raised above the separator a higher ancestor assigns to it", id, pi.Parent), out, false}) {
				return
			}
		}
		// upper side: last key raised to or above the next separator of the parent
		if ci+1 < len(par.Children) {
			next := par.Keys[ci+1]
			last := pi.Keys[n-1]
			if len(last) > 0 && len(next) > 0 && next[0] != 0xFF {
				kl, _ := keyAt(img, n-1)
				out := []Edit{{kl, []byte{0xFF}}}
				if !emit(Mutant{"key-order:parent-hi", fmt.Sprintf("last key of page %d raised above the next separator in parent %d", id, pi.Parent), out, false}) {
					return
				}
			}
		}
	}
}

func containsID(s []uint64, id uint64) bool {
	for _, x := range s {
		if x == id {
			return true
		}
	}
	return false
}

func kindOf(fl uint16) string {
	switch fl {
	case FlagBranch:
		return "branch"
	case FlagLeaf:
		return "leaf"
	}
	return fmt.Sprintf("flags %#x", fl)
}

// ClassOf maps D's own error messages on a mutated image to the corruption
// classes of the property; it is how D "confirms the class".
func ClassOf(errs []string) map[string]bool {
	out := map[string]bool{}
	for _, e := range errs {
		switch {
		case contains(e, "neither reachable nor free"):
			out["unreachable-unfreed"] = true
		case contains(e, "is free and in use"):
			out["reachable-free"] = true
		case contains(e, "referenced twice"):
			out["double-ref"] = true
		case contains(e, "listed twice as free"):
			out["double-free"] = true
		case contains(e, "invalid type flags"):
			out["bad-type"] = true
		case contains(e, "not greater than"), contains(e, "below the separator"), contains(e, "not below the next separator"):
			out["key-order"] = true
		default:
			out["other"] = true
		}
	}
	return out
}

func contains(s, sub string) bool { return bytes.Contains([]byte(s), []byte(sub)) }
