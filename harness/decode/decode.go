// Package decode is the independent decoder D of the published bbolt
// version-2 file format. It is written from the layout only, with literal
// offsets and encoding/binary, and imports nothing from bbolt. It never
// mmaps, so it can be pointed at arbitrarily damaged images.
package decode

import (
	"bytes"
	"encoding/binary"
	"fmt"
	"sort"
	"strings"

	"go.etcd.io/bbolt/verifh/model"
)

const (
	Magic          = 0xED0CDAED
	Version        = 2
	PageHeaderSize = 16
	MetaSize       = 64 // magic..checksum
	BranchElemSize = 16
	LeafElemSize   = 16
	BucketHdrSize  = 16

	FlagBranch   = 0x01
	FlagLeaf     = 0x02
	FlagMeta     = 0x04
	FlagFreelist = 0x10

	BucketLeafFlag = 0x01

	NoFreelist = ^uint64(0)
)

var le = binary.LittleEndian

// Meta is one decoded meta page.
type Meta struct {
	Slot     int
	Valid    bool
	Why      string // why invalid
	Magic    uint32
	Version  uint32
	PageSize uint32
	Flags    uint32
	Root     uint64
	RootSeq  uint64
	Freelist uint64
	Pgid     uint64 // high-water mark
	Txid     uint64
	Checksum uint64
	PageID   uint64 // page header id
	PageFlag uint16
}

func fnv64a(b []byte) uint64 {
	h := uint64(14695981039346656037)
	for _, c := range b {
		h ^= uint64(c)
		h *= 1099511628211
	}
	return h
}

// DecodeMeta decodes the meta structure found at file offset off+16.
func DecodeMeta(img []byte, off int, slot int) Meta {
	m := Meta{Slot: slot}
	if off < 0 || off+PageHeaderSize+MetaSize > len(img) {
		m.Why = "page not in file"
		return m
	}
	p := img[off:]
	m.PageID = le.Uint64(p[0:])
	m.PageFlag = le.Uint16(p[8:])
	b := p[PageHeaderSize:]
	m.Magic = le.Uint32(b[0:])
	m.Version = le.Uint32(b[4:])
	m.PageSize = le.Uint32(b[8:])
	m.Flags = le.Uint32(b[12:])
	m.Root = le.Uint64(b[16:])
	m.RootSeq = le.Uint64(b[24:])
	m.Freelist = le.Uint64(b[32:])
	m.Pgid = le.Uint64(b[40:])
	m.Txid = le.Uint64(b[48:])
	m.Checksum = le.Uint64(b[56:])
	switch {
	case m.Magic != Magic:
		m.Why = "bad magic"
	case m.Version != Version:
		m.Why = "bad version"
	case m.Checksum != fnv64a(b[:56]):
		m.Why = "bad checksum"
	default:
		m.Valid = true
	}
	return m
}

// EncodeMeta writes m (with a fresh checksum) as a complete meta page header +
// meta structure into a buffer of PageHeaderSize+MetaSize bytes.
func EncodeMeta(m Meta) []byte {
	p := make([]byte, PageHeaderSize+MetaSize)
	le.PutUint64(p[0:], m.PageID)
	le.PutUint16(p[8:], FlagMeta)
	b := p[PageHeaderSize:]
	le.PutUint32(b[0:], m.Magic)
	le.PutUint32(b[4:], m.Version)
	le.PutUint32(b[8:], m.PageSize)
	le.PutUint32(b[12:], m.Flags)
	le.PutUint64(b[16:], m.Root)
	le.PutUint64(b[24:], m.RootSeq)
	le.PutUint64(b[32:], m.Freelist)
	le.PutUint64(b[40:], m.Pgid)
	le.PutUint64(b[48:], m.Txid)
	le.PutUint64(b[56:], fnv64a(b[:56]))
	return p
}

// PageUse says what a page below the high-water mark is used for.
type PageUse struct {
	Kind  string   // "meta", "freelist", "branch", "leaf"
	First uint64   // first page of the allocation this page belongs to
	Stack []uint64 // pages from the bucket root down to First (tree pages only)
}

// Result is everything D can say about a file image.
type Result struct {
	PageSize      int
	Metas         [2]Meta
	Chosen        int // meta slot in effect, -1 if none is valid
	Meta          Meta
	Content       *model.Bucket      // logical content (root: only Sub and Seq)
	Use           map[uint64]PageUse // every page id with a use (meta, freelist, tree incl. overflow)
	TreePages     []uint64           // sorted ids of all tree pages incl. overflow
	FreelistPages []uint64           // freelist page + overflow, empty if not persisted
	Free          []uint64           // ids on the persisted freelist, in file order
	HasFreelist   bool
	Errors        []string // structural errors; empty for a consistent file
	// element index for corruption targeting
	Pages map[uint64]*PageInfo // tree pages by first id
	// Inline says for every nested bucket (logical path, names joined by NUL) whether it is stored inline.
	Inline map[string]bool
	// statistics
	Depth       int
	InlineN     int
	BucketN     int
	OverflowN   int
	BranchN     int
	LeafN       int
	KeyN        int
	MaxFreeSpan int
}

// PageInfo describes one decoded tree page (first page of an allocation).
type PageInfo struct {
	ID       uint64
	Flags    uint16
	Count    int
	Overflow uint32
	Parent   uint64 // parent branch page, 0 if bucket root
	IsRoot   bool
	Keys     [][]byte // element keys
	Children []uint64 // branch: child page ids
	ElemFlag []uint32 // leaf: element flags
	BucketRt []uint64 // leaf: for bucket elements the root page id (0 = inline), else 0
	Lo, Hi   []byte   // key interval the ancestors' separators assign to this page (nil = unbounded)
}

func (r *Result) errf(format string, a ...any) {
	if len(r.Errors) < 200 {
		r.Errors = append(r.Errors, fmt.Sprintf(format, a...))
	}
}

// Options for Decode.
type Options struct {
	ForceSlot int  // 0: choose like bbolt (valid meta with the larger txid); 1 or 2: use slot ForceSlot-1
	NoContent bool // skip building the logical content (page accounting only)
	PageSize  int  // if both metas are unreadable; 0 = try
	NoParity  bool // do not require txid mod 2 == slot (hot-backup copies place the newer meta in slot 0 by design)
}

// PageSizeOf determines the page size of an image from either meta, 0 if impossible.
func PageSizeOf(img []byte) int {
	m0 := DecodeMeta(img, 0, 0)
	if m0.Valid {
		return int(m0.PageSize)
	}
	for sh := 0; sh <= 14; sh++ {
		ps := 1024 << uint(sh)
		m1 := DecodeMeta(img, ps, 1)
		if m1.Valid && int(m1.PageSize) == ps {
			return ps
		}
	}
	return 0
}

// Decode decodes a whole file image.
func Decode(img []byte, opt Options) *Result {
	r := &Result{Chosen: -1, Use: map[uint64]PageUse{}, Pages: map[uint64]*PageInfo{}, Inline: map[string]bool{}}
	ps := PageSizeOf(img)
	if ps == 0 {
		ps = opt.PageSize
	}
	if ps == 0 {
		r.errf("no valid meta page: cannot determine page size")
		return r
	}
	r.PageSize = ps
	r.Metas[0] = DecodeMeta(img, 0, 0)
	r.Metas[1] = DecodeMeta(img, ps, 1)
	switch {
	case opt.ForceSlot > 0:
		if r.Metas[opt.ForceSlot-1].Valid {
			r.Chosen = opt.ForceSlot - 1
		}
	case r.Metas[0].Valid && r.Metas[1].Valid:
		if r.Metas[1].Txid > r.Metas[0].Txid {
			r.Chosen = 1
		} else {
			r.Chosen = 0
		}
	case r.Metas[0].Valid:
		r.Chosen = 0
	case r.Metas[1].Valid:
		r.Chosen = 1
	}
	if r.Chosen < 0 {
		r.errf("no valid meta page (meta0: %s, meta1: %s)", r.Metas[0].Why, r.Metas[1].Why)
		return r
	}
	m := r.Metas[r.Chosen]
	r.Meta = m
	if int(m.PageSize) != ps {
		r.errf("meta %d page size %d != %d", r.Chosen, m.PageSize, ps)
	}
	if m.Txid%2 != uint64(r.Chosen) && !opt.NoParity {
		r.errf("meta with txid %d sits in slot %d (expected txid mod 2)", m.Txid, r.Chosen)
	}
	if m.Pgid < 2 {
		r.errf("high-water mark %d < 2", m.Pgid)
		return r
	}
	if uint64(len(img)) < m.Pgid*uint64(ps) {
		r.errf("file length %d shorter than high-water mark %d * page size %d", len(img), m.Pgid, ps)
	}
	r.Use[0] = PageUse{Kind: "meta", First: 0}
	r.Use[1] = PageUse{Kind: "meta", First: 1}
	for slot := 0; slot < 2; slot++ {
		mm := r.Metas[slot]
		if mm.Why != "page not in file" {
			if mm.PageFlag != FlagMeta {
				r.errf("meta page %d has flags %#x", slot, mm.PageFlag)
			}
			if mm.PageID != uint64(slot) {
				r.errf("meta page %d identifies as page %d", slot, mm.PageID)
			}
		}
	}

	d := &dec{r: r, img: img, ps: ps, hwm: m.Pgid, noContent: opt.NoContent}

	// freelist
	if m.Freelist != NoFreelist {
		r.HasFreelist = true
		d.freelist(m.Freelist)
	}

	// tree
	root := model.New()
	root.Seq = m.RootSeq
	if m.Root >= m.Pgid {
		r.errf("root page %d at or above high-water mark %d", m.Root, m.Pgid)
	} else {
		d.bucketTree(m.Root, root, 1)
	}
	r.Content = root

	// accounting
	freeSeen := map[uint64]bool{}
	for _, id := range r.Free {
		if id < 2 || id >= m.Pgid {
			r.errf("free id %d outside [2, %d)", id, m.Pgid)
			continue
		}
		if freeSeen[id] {
			r.errf("page %d listed twice as free", id)
		}
		freeSeen[id] = true
		if u, ok := r.Use[id]; ok {
			r.errf("page %d is free and in use as %s (allocation %d)", id, u.Kind, u.First)
		}
	}
	if r.HasFreelist {
		for id := uint64(2); id < m.Pgid; id++ {
			if _, used := r.Use[id]; !used && !freeSeen[id] {
				r.errf("page %d is neither reachable nor free", id)
			}
		}
	}
	for id, u := range r.Use {
		if u.Kind == "branch" || u.Kind == "leaf" {
			r.TreePages = append(r.TreePages, id)
		}
	}
	sort.Slice(r.TreePages, func(i, j int) bool { return r.TreePages[i] < r.TreePages[j] })
	return r
}

// Unreachable returns the ids in [2,hwm) with no use: the exact free set a
// consistent file must have (pending pages included).
func (r *Result) Unreachable() []uint64 {
	var out []uint64
	for id := uint64(2); id < r.Meta.Pgid; id++ {
		if _, used := r.Use[id]; !used {
			out = append(out, id)
		}
	}
	return out
}

// VisiblePages returns every page of this version that must not be
// overwritten while the version is visible: tree pages (incl. overflow) and
// freelist pages.
func (r *Result) VisiblePages() map[uint64]string {
	out := map[uint64]string{}
	for id, u := range r.Use {
		if u.Kind != "meta" {
			out[id] = u.Kind
		}
	}
	return out
}

type dec struct {
	r         *Result
	img       []byte
	ps        int
	hwm       uint64
	noContent bool
	path      []string
}

// page returns the bytes of the allocation starting at page id (ps*(overflow+1)
// bytes, clipped to the file) and its header fields.
func (d *dec) page(id uint64) (buf []byte, flags uint16, count int, overflow uint32, ok bool) {
	off := id * uint64(d.ps)
	if off+PageHeaderSize > uint64(len(d.img)) {
		d.r.errf("page %d lies outside the file (length %d)", id, len(d.img))
		return nil, 0, 0, 0, false
	}
	h := d.img[off:]
	pid := le.Uint64(h[0:])
	flags = le.Uint16(h[8:])
	count = int(le.Uint16(h[10:]))
	overflow = le.Uint32(h[12:])
	if pid != id {
		d.r.errf("page at position %d identifies as page %d", id, pid)
	}
	end := off + uint64(d.ps)*(uint64(overflow)+1)
	if id+uint64(overflow) >= d.hwm {
		d.r.errf("page %d with overflow %d reaches beyond high-water mark %d", id, overflow, d.hwm)
		if id >= d.hwm {
			return nil, flags, count, overflow, false
		}
		end = d.hwm * uint64(d.ps)
	}
	if end > uint64(len(d.img)) {
		d.r.errf("page %d (overflow %d) extends beyond the file", id, overflow)
		end = uint64(len(d.img))
	}
	return d.img[off:end], flags, count, overflow, true
}

func (d *dec) mark(id uint64, overflow uint32, kind string, stack []uint64) bool {
	fresh := true
	for i := uint64(0); i <= uint64(overflow); i++ {
		pid := id + i
		if pid >= d.hwm {
			break
		}
		if u, ok := d.r.Use[pid]; ok {
			d.r.errf("page %d referenced twice (as %s of allocation %d, again as %s of allocation %d)", pid, u.Kind, u.First, kind, id)
			fresh = false
			continue
		}
		d.r.Use[pid] = PageUse{Kind: kind, First: id, Stack: append([]uint64{}, stack...)}
	}
	return fresh
}

func (d *dec) freelist(id uint64) {
	if id < 2 || id >= d.hwm {
		d.r.errf("freelist page %d outside [2, %d)", id, d.hwm)
		return
	}
	buf, flags, count, overflow, ok := d.page(id)
	if !ok {
		return
	}
	if flags != FlagFreelist {
		d.r.errf("freelist page %d has flags %#x", id, flags)
		return
	}
	d.mark(id, overflow, "freelist", nil)
	for i := uint64(0); i <= uint64(overflow); i++ {
		d.r.FreelistPages = append(d.r.FreelistPages, id+i)
	}
	idx, n := 0, count
	if count == 0xFFFF {
		if len(buf) < PageHeaderSize+8 {
			d.r.errf("freelist page %d too short for its count", id)
			return
		}
		n = int(le.Uint64(buf[PageHeaderSize:]))
		idx = 1
		if n < 0xFFFF {
			d.r.errf("freelist page %d uses the 0xFFFF convention for only %d ids", id, n)
		}
	}
	need := PageHeaderSize + 8*(idx+n)
	if need > len(buf) {
		d.r.errf("freelist page %d: %d ids do not fit into %d bytes", id, n, len(buf))
		n = (len(buf)-PageHeaderSize)/8 - idx
		if n < 0 {
			n = 0
		}
	}
	var prev uint64
	for i := 0; i < n; i++ {
		fid := le.Uint64(buf[PageHeaderSize+8*(idx+i):])
		if i > 0 && fid <= prev {
			if fid == prev {
				// reported by the accounting as "listed twice"
			} else {
				d.r.errf("freelist page %d not sorted at index %d (%d after %d)", id, i, fid, prev)
			}
		}
		prev = fid
		d.r.Free = append(d.r.Free, fid)
	}
}

// bucketTree decodes the B+tree rooted at page root into b.
func (d *dec) bucketTree(root uint64, b *model.Bucket, bucketDepth int) {
	d.r.BucketN++
	var last []byte
	depth := d.treePage(root, nil, nil, nil, b, &last, 0, true, bucketDepth)
	if depth > d.r.Depth {
		d.r.Depth = depth
	}
}

// treePage walks one page. lo (inclusive) / hi (exclusive) bound the keys; nil = unbounded.
func (d *dec) treePage(id uint64, stack []uint64, lo, hi []byte, b *model.Bucket, last *[]byte, parent uint64, isRoot bool, bucketDepth int) int {
	if id < 2 || id >= d.hwm {
		d.r.errf("tree page %d outside [2, %d) (stack %v)", id, d.hwm, stack)
		return 0
	}
	for _, s := range stack {
		if s == id {
			d.r.errf("cycle: page %d is its own ancestor (stack %v)", id, stack)
			return 0
		}
	}
	buf, flags, count, overflow, ok := d.page(id)
	if !ok {
		return 0
	}
	stack = append(append([]uint64{}, stack...), id)
	kind := ""
	switch flags {
	case FlagBranch:
		kind = "branch"
	case FlagLeaf:
		kind = "leaf"
	default:
		d.r.errf("page %d: invalid type flags %#x for a tree page (stack %v)", id, flags, stack)
		d.mark(id, overflow, fmt.Sprintf("invalid<%#x>", flags), stack)
		return 0
	}
	if !d.mark(id, overflow, kind, stack) {
		return 0 // do not descend twice into a doubly referenced page
	}
	if overflow > 0 {
		d.r.OverflowN += int(overflow)
	}
	pi := &PageInfo{ID: id, Flags: flags, Count: count, Overflow: overflow, Parent: parent, IsRoot: isRoot, Lo: lo, Hi: hi}
	d.r.Pages[id] = pi
	if kind == "leaf" {
		d.r.LeafN++
		d.leafElems(buf, id, count, lo, hi, b, last, pi, stack, bucketDepth, false)
		return 1
	}
	d.r.BranchN++
	if count == 0 {
		d.r.errf("branch page %d has no elements", id)
		return 1
	}
	if PageHeaderSize+count*BranchElemSize > len(buf) {
		d.r.errf("branch page %d: %d element headers do not fit", id, count)
		return 1
	}
	type be struct {
		key  []byte
		pgid uint64
	}
	elems := make([]be, 0, count)
	for i := 0; i < count; i++ {
		eo := PageHeaderSize + i*BranchElemSize
		pos := int(le.Uint32(buf[eo:]))
		ksz := int(le.Uint32(buf[eo+4:]))
		pg := le.Uint64(buf[eo+8:])
		ko := eo + pos
		if ksz == 0 {
			d.r.errf("branch page %d element %d has an empty key", id, i)
		}
		if pos < (count-i)*BranchElemSize || ko+ksz > len(buf) || ko < 0 {
			d.r.errf("branch page %d element %d: key [%d,%d) outside the page data area", id, i, ko, ko+ksz)
			return 1
		}
		elems = append(elems, be{buf[ko : ko+ksz], pg})
		pi.Keys = append(pi.Keys, buf[ko:ko+ksz])
		pi.Children = append(pi.Children, pg)
	}
	maxDepth := 0
	for i, e := range elems {
		if i > 0 && bytes.Compare(elems[i-1].key, e.key) >= 0 {
			d.r.errf("branch page %d: key %d not greater than key %d", id, i, i-1)
		}
		if i == 0 && lo != nil && bytes.Compare(e.key, lo) < 0 {
			d.r.errf("branch page %d: first key below the separator of its parent", id)
		}
		if hi != nil && bytes.Compare(e.key, hi) >= 0 {
			d.r.errf("branch page %d: key %d not below the next separator of its parent", id, i)
		}
		var chi []byte = hi
		if i+1 < len(elems) {
			chi = elems[i+1].key
		}
		dd := d.treePage(e.pgid, stack, e.key, chi, b, last, id, false, bucketDepth)
		if dd > maxDepth {
			maxDepth = dd
		}
	}
	return maxDepth + 1
}

func (d *dec) leafElems(buf []byte, id uint64, count int, lo, hi []byte, b *model.Bucket, last *[]byte, pi *PageInfo, stack []uint64, bucketDepth int, inline bool) {
	what := fmt.Sprintf("leaf page %d", id)
	if inline {
		what = fmt.Sprintf("inline page of bucket below page %d", id)
	}
	if PageHeaderSize+count*LeafElemSize > len(buf) {
		d.r.errf("%s: %d element headers do not fit into %d bytes", what, count, len(buf))
		return
	}
	for i := 0; i < count; i++ {
		eo := PageHeaderSize + i*LeafElemSize
		fl := le.Uint32(buf[eo:])
		pos := int(le.Uint32(buf[eo+4:]))
		ksz := int(le.Uint32(buf[eo+8:]))
		vsz := int(le.Uint32(buf[eo+12:]))
		ko := eo + pos
		if pos < (count-i)*LeafElemSize || ko < 0 || ko+ksz+vsz > len(buf) || ksz < 0 || vsz < 0 {
			d.r.errf("%s element %d: data [%d,%d) outside the page data area (%d bytes)", what, i, ko, ko+ksz+vsz, len(buf))
			return
		}
		key := buf[ko : ko+ksz]
		val := buf[ko+ksz : ko+ksz+vsz]
		if ksz == 0 {
			d.r.errf("%s element %d has an empty key", what, i)
		}
		if *last != nil && bytes.Compare(*last, key) >= 0 {
			d.r.errf("%s: key %d (%s) not greater than the previous key (%s)", what, i, model.KeyLabel(string(key)), model.KeyLabel(string(*last)))
		}
		if lo != nil && bytes.Compare(key, lo) < 0 {
			d.r.errf("%s: key %d below the separator of its parent", what, i)
		}
		if hi != nil && bytes.Compare(key, hi) >= 0 {
			d.r.errf("%s: key %d not below the next separator of its parent", what, i)
		}
		*last = key
		if pi != nil {
			pi.Keys = append(pi.Keys, key)
			pi.ElemFlag = append(pi.ElemFlag, fl)
		}
		d.r.KeyN++
		if fl&^uint32(BucketLeafFlag) != 0 {
			d.r.errf("%s element %d has unknown flags %#x", what, i, fl)
		}
		if fl&BucketLeafFlag == 0 {
			if pi != nil {
				pi.BucketRt = append(pi.BucketRt, 0)
			}
			if !d.noContent {
				if _, dup := b.KV[string(key)]; dup {
					d.r.errf("%s: key %s appears twice in the bucket", what, model.KeyLabel(string(key)))
				}
				b.KV[string(key)] = val
			}
			continue
		}
		// nested bucket
		if inline {
			d.r.errf("%s element %d: nested bucket inside an inline bucket", what, i)
		}
		if vsz < BucketHdrSize {
			d.r.errf("%s element %d: bucket value of %d bytes", what, i, vsz)
			if pi != nil {
				pi.BucketRt = append(pi.BucketRt, 0)
			}
			continue
		}
		rootPg := le.Uint64(val[0:])
		seq := le.Uint64(val[8:])
		if pi != nil {
			pi.BucketRt = append(pi.BucketRt, rootPg)
		}
		child := model.New()
		child.Seq = seq
		if !d.noContent {
			b.Sub[string(key)] = child
		}
		d.path = append(d.path, string(key))
		d.r.Inline[strings.Join(d.path, "\x00")] = rootPg == 0
		func() {
			if rootPg == 0 {
				d.r.InlineN++
				d.r.BucketN++
				ip := val[BucketHdrSize:]
				if len(ip) < PageHeaderSize {
					d.r.errf("%s element %d: inline bucket without a page header", what, i)
					return
				}
				iflags := le.Uint16(ip[8:])
				icount := int(le.Uint16(ip[10:]))
				if iflags != FlagLeaf {
					d.r.errf("%s element %d: inline page has flags %#x", what, i, iflags)
					return
				}
				if le.Uint64(ip[0:]) != 0 {
					d.r.errf("%s element %d: inline page has id %d", what, i, le.Uint64(ip[0:]))
				}
				var ilast []byte
				d.leafElems(ip, id, icount, nil, nil, child, &ilast, nil, stack, bucketDepth+1, true)
			} else {
				if vsz != BucketHdrSize {
					d.r.errf("%s element %d: bucket with root page %d carries %d extra bytes", what, i, rootPg, vsz-BucketHdrSize)
				}
				d.bucketTree(rootPg, child, bucketDepth+1)
			}
		}()
		d.path = d.path[:len(d.path)-1]
	}
}
