package drivers

import (
	"encoding/json"
	"fmt"
	"math/rand"
	"os"
	"path/filepath"
	"sort"
	"strings"
	"sync"
	"time"

	bolt "go.etcd.io/bbolt"
	"go.etcd.io/bbolt/verifh/decode"
	"go.etcd.io/bbolt/verifh/exec"
	"go.etcd.io/bbolt/verifh/gen"
	"go.etcd.io/bbolt/verifh/iotrace"
	"go.etcd.io/bbolt/verifh/model"
)

// The interleaving explorer (C02 part 1, C06, C10): one goroutine drives a
// sequence of reader/writer events against one database whose initial map is
// larger than the workload can reach (a reader held by the goroutine that
// drives a remapping writer deadlocks by design).

type exEvent struct {
	K string `json:"k"` // R+ | R-o | R-n | R-r | WC | WR | WF | RO
	A int    `json:"a,omitempty"`
}

type exCase struct {
	Name    string       `json:"name"`
	Seed    int64        `json:"seed"`
	Case    int          `json:"case"`
	Opts    gen.OpenOpts `json:"opts"`
	Batches [][]gen.Step `json:"batches"`
	Events  []exEvent    `json:"events"`
}

type exMon struct {
	Readers bool `json:"readers"` // C02: re-dump every open reader after every event
	Writes  bool `json:"writes"`  // C06: check every write against the visible page sets
	Reclaim bool `json:"reclaim"` // C10: allocator invariants at every quiescent point
	Account bool `json:"account"` // C08: page accounting (D, Tx.Check, Stats) after every writer event
}

type exArgs struct {
	Cases []string `json:"cases"`
	Mon   exMon    `json:"mon"`
	Dir   string   `json:"dir"`
}

type exStats struct {
	Events          int            `json:"events"`
	ReaderDumps     int            `json:"reader_dumps"`
	WritesChecked   int            `json:"writes_checked"`
	WritesWithOlder int            `json:"writes_with_older_reader"`
	MetaWrites      int            `json:"meta_writes"`
	Versions        int            `json:"versions"`
	Commits         int            `json:"commits"`
	Rollbacks       int            `json:"rollbacks"`
	FailedCommits   int            `json:"failed_commits"`
	FailedPresent   int            `json:"failed_present"`
	Reopens         int            `json:"reopens"`
	ModeFlips       int            `json:"mode_flips"`
	SizeRejects     int            `json:"size_rejects"`
	MaxReaders      int            `json:"max_readers"`
	ReclaimChecks   int            `json:"reclaim_checks"`
	BeginNoReaders  int            `json:"writer_begins_without_readers"`
	Situations      map[string]int `json:"situations"`     // (reader-age pattern, writer outcome)
	PagesRecycled   int            `json:"pages_recycled"` // writes landing on a page some older version used
}

type exResult struct {
	ID    string           `json:"id"`
	File  string           `json:"file"`
	Viol  []exec.Violation `json:"viol,omitempty"`
	Stats exStats          `json:"stats"`
	Crash string           `json:"crash,omitempty"`
}

func init() { ChildModes["explore"] = childExplore }

func childExplore(argfile string) {
	var a exArgs
	ReadArgs(argfile, &a)
	for i, f := range a.Cases {
		id := fmt.Sprintf("%d", i)
		ChildStart(id)
		b, err := os.ReadFile(f)
		var cs exCase
		if err != nil || json.Unmarshal(b, &cs) != nil {
			fmt.Fprintln(os.Stderr, "child: cannot load case", f)
			os.Exit(3)
		}
		ex := newExplorer(filepath.Join(a.Dir, fmt.Sprintf("ex-%d-%d.db", os.Getpid(), i)), a.Mon)
		viol := ex.run(&cs)
		os.Remove(ex.path)
		ChildDone(id, exResult{ID: id, File: f, Viol: viol, Stats: ex.st})
	}
}

type exReader struct {
	tx  *bolt.Tx
	id  int
	age int // events since begin
}

type explorer struct {
	path    string
	mon     exMon
	r       *exec.Runner
	tr      *iotrace.Tracer
	readers []*exReader
	st      exStats
	ps      int

	mu         sync.Mutex
	pages      map[int]map[uint64]string // txid -> pages of that version (tree + freelist)
	dumps      map[int][]string          // txid -> expected dump
	newest     int
	newestSlot int
	known      bool
	openIDs    map[int]int // reader version -> count (subset of the truly open readers)
	monViol    []exec.Violation
	everUsed   map[uint64]bool
	curWriter  string
}

func newExplorer(path string, mon exMon) *explorer {
	return &explorer{path: path, mon: mon, pages: map[int]map[uint64]string{}, dumps: map[int][]string{}, openIDs: map[int]int{},
		st: exStats{Situations: map[string]int{}}, everUsed: map[uint64]bool{}}
}

func (ex *explorer) monFail(kind, format string, a ...any) {
	ex.mu.Lock()
	if len(ex.monViol) < 10 {
		ex.monViol = append(ex.monViol, exec.Violation{Kind: kind, Msg: fmt.Sprintf(format, a...)})
	}
	ex.mu.Unlock()
}

// registerFromFile decodes the file and records the page set of the version in slot (or the chosen one).
func (ex *explorer) registerFromFile(forceSlot int) (txid int, ok bool) {
	img, err := os.ReadFile(ex.path)
	if err != nil {
		return 0, false
	}
	d := decode.Decode(img, decode.Options{ForceSlot: forceSlot, NoContent: true})
	if d.Chosen < 0 {
		return 0, false
	}
	if len(d.Errors) > 0 && ex.mon.Writes {
		// not this monitor's business (C07), but a page set from a broken image would be unreliable
		return int(d.Meta.Txid), false
	}
	vp := d.VisiblePages()
	ex.mu.Lock()
	ex.pages[int(d.Meta.Txid)] = vp
	ex.newest = int(d.Meta.Txid)
	ex.newestSlot = d.Chosen
	ex.known = true
	ex.ps = d.PageSize
	for id := range vp {
		ex.everUsed[id] = true
	}
	ex.st.Versions = len(ex.pages)
	ex.mu.Unlock()
	return int(d.Meta.Txid), true
}

// before is the C06 monitor: every write is checked before it lands.
func (ex *explorer) before(ev *bolt.VerifIOEvent) {
	if ev.Op != "write" {
		return
	}
	ex.mu.Lock()
	defer ex.mu.Unlock()
	if !ex.known || ex.ps == 0 {
		return
	}
	ps := int64(ex.ps)
	if ev.Off < 2*ps {
		ex.st.MetaWrites++
		slot := int(ev.Off / ps)
		if ev.Off%ps != 0 || int64(len(ev.Data)) > ps {
			ex.failLocked("write:meta-range", "meta write at offset %d length %d is not one meta page", ev.Off, len(ev.Data))
		}
		if slot == ex.newestSlot && ex.mon.Writes {
			ex.failLocked("write:meta-slot", "meta write goes to slot %d which holds the newest committed meta (txid %d)", slot, ex.newest)
		}
		return
	}
	ex.st.WritesChecked++
	older := false
	for id := range ex.openIDs {
		if id < ex.newest {
			older = true
		}
	}
	if older {
		ex.st.WritesWithOlder++
	}
	first := uint64(ev.Off / ps)
	last := uint64((ev.Off + int64(len(ev.Data)) - 1) / ps)
	for pg := first; pg <= last; pg++ {
		if ex.everUsed[pg] {
			ex.st.PagesRecycled++
		}
		if !ex.mon.Writes {
			continue
		}
		if kind, hit := ex.pages[ex.newest][pg]; hit {
			ex.failLocked("write:visible-newest", "write to page %d (offset %d len %d) which is a %s page of the newest committed version %d", pg, ev.Off, len(ev.Data), kind, ex.newest)
			return
		}
		for id := range ex.openIDs {
			if kind, hit := ex.pages[id][pg]; hit {
				ex.failLocked("write:visible-reader", "write to page %d (offset %d len %d) which is a %s page of version %d, still viewed by an open read transaction (newest is %d)", pg, ev.Off, len(ev.Data), kind, id, ex.newest)
				return
			}
		}
	}
}

func (ex *explorer) failLocked(kind, format string, a ...any) {
	if len(ex.monViol) < 10 {
		ex.monViol = append(ex.monViol, exec.Violation{Kind: kind, Msg: fmt.Sprintf(format, a...)})
	}
}

// after: a successful meta write makes a new version the newest one (bbolt holds metalock here).
func (ex *explorer) after(ev *bolt.VerifIOEvent, err error) {
	if ev.Op != "write" || err != nil {
		return
	}
	ex.mu.Lock()
	ps := int64(ex.ps)
	known := ex.known
	ex.mu.Unlock()
	if !known || ev.Off >= 2*ps {
		return
	}
	ex.registerFromFile(int(ev.Off/ps) + 1)
}

func (ex *explorer) collect() bool {
	ex.mu.Lock()
	defer ex.mu.Unlock()
	for _, v := range ex.monViol {
		ex.r.Fail(v.Kind, "%s", v.Msg)
	}
	ex.monViol = nil
	return len(ex.r.Viol) > 0
}

// checkReaders re-dumps every open reader (C02).
func (ex *explorer) checkReaders(when string) {
	if !ex.mon.Readers {
		return
	}
	for _, rd := range ex.readers {
		func() {
			defer func() {
				if x := recover(); x != nil {
					ex.r.Fail("reader-crash", "%s: reading through the read transaction of version %d panicked: %v", when, rd.id, x)
				}
			}()
			got, probs := exec.DumpTx(rd.tx, true)
			ex.st.ReaderDumps++
			for _, p := range probs {
				ex.r.Fail("reader-paths", "%s: reader of version %d: %s", when, rd.id, p)
			}
			want, ok := ex.dumps[rd.id]
			if !ok {
				ex.r.Fail("reader-id", "%s: reader has id %d which is not a committed version (known: %v)", when, rd.id, ex.versionIDs())
				return
			}
			if d := model.DiffDumps(want, got); d != "" {
				ex.r.Fail("reader-snapshot", "%s: read transaction of version %d (age %d events, newest %d) no longer shows its snapshot: %s", when, rd.id, rd.age, ex.newest, d)
			}
			if rd.tx.ID() != rd.id {
				ex.r.Fail("reader-id", "reader id changed from %d to %d", rd.id, rd.tx.ID())
			}
		}()
	}
}

func (ex *explorer) versionIDs() []int {
	var ids []int
	for id := range ex.dumps {
		ids = append(ids, id)
	}
	sort.Ints(ids)
	if len(ids) > 6 {
		ids = ids[len(ids)-6:]
	}
	return ids
}

// checkReclaim: allocator invariants at a quiescent point (C10 safety).
func (ex *explorer) checkReclaim(when string) {
	if !ex.mon.Reclaim || ex.r.DB == nil {
		return
	}
	st := ex.r.DB.VerifFreelist()
	if st == nil {
		return
	}
	ex.st.ReclaimChecks++
	ex.mu.Lock()
	defer ex.mu.Unlock()
	for _, id := range st.Free {
		if kind, hit := ex.pages[ex.newest][uint64(id)]; hit {
			ex.failLocked("reclaim:free-but-visible", "%s: page %d is in the allocator's free set but is a %s page of the newest version %d", when, id, kind, ex.newest)
			return
		}
		for _, rd := range ex.readers {
			if kind, hit := ex.pages[rd.id][uint64(id)]; hit {
				ex.failLocked("reclaim:free-but-visible", "%s: page %d is in the allocator's free set but is a %s page of version %d viewed by an open reader", when, id, kind, rd.id)
				return
			}
		}
	}
}

func (ex *explorer) readerPattern() string {
	if len(ex.readers) == 0 {
		return "none"
	}
	var ages []string
	for _, rd := range ex.readers {
		ages = append(ages, fmt.Sprintf("%d", ex.newest-rd.id))
	}
	sort.Strings(ages)
	return strings.Join(ages, ",")
}

func (ex *explorer) run(cs *exCase) (viol []exec.Violation) {
	ex.tr = iotrace.New(ex.path)
	ex.tr.OnBefore = ex.before
	ex.tr.OnAfter = ex.after
	ex.tr.CursorLimit = 1_000_000
	ex.tr.Install()
	defer iotrace.Uninstall()
	ex.r = exec.NewRunner(ex.path, exec.Monitors{API: true, Dumps: true, TxCheck: ex.mon.Account, Accounting: ex.mon.Account, FreeExact: ex.mon.Account})
	ex.r.Tracer = ex.tr
	defer func() {
		if x := recover(); x != nil {
			ex.r.Fail("panic", "panic: %v", x)
		}
		for _, rd := range ex.readers {
			func() { defer func() { _ = recover() }(); _ = rd.tx.Rollback() }()
		}
		ex.readers = nil
		ex.r.Cleanup()
		viol = ex.r.Viol
	}()
	opts := cs.Opts
	if ex.r.Exec(&gen.Step{Op: "open", Opts: &opts}) {
		return
	}
	ex.tr.MetaLimit = int64(2 * ex.r.DB.VerifPageSize())
	id, ok := ex.registerFromFile(0)
	if !ok {
		ex.r.Fail("harness", "cannot decode the freshly opened file")
		return
	}
	ex.dumps[id] = exec.ModelDump(ex.r.Sim.Committed)
	nextBatch := 0
	rng := rand.New(rand.NewSource(cs.Seed*31 + int64(cs.Case)))
	for ei, ev := range cs.Events {
		ex.st.Events++
		for _, rd := range ex.readers {
			rd.age++
		}
		when := fmt.Sprintf("event %d (%s)", ei, ev.K)
		switch ev.K {
		case "R+":
			if len(ex.readers) >= 4 {
				continue
			}
			tx, err := ex.r.DB.Begin(false)
			if err != nil {
				ex.r.Fail("begin", "%s: Begin(false): %v", when, err)
				return
			}
			rd := &exReader{tx: tx, id: tx.ID()}
			ex.mu.Lock()
			ex.openIDs[rd.id]++
			newest := ex.newest
			ex.mu.Unlock()
			ex.readers = append(ex.readers, rd)
			if len(ex.readers) > ex.st.MaxReaders {
				ex.st.MaxReaders = len(ex.readers)
			}
			if ex.mon.Readers && rd.id != newest {
				ex.r.Fail("reader-id", "%s: reader begun after commit %d was acknowledged has id %d", when, newest, rd.id)
			}
		case "R-o", "R-n", "R-r":
			if len(ex.readers) == 0 {
				continue
			}
			i := 0
			if ev.K == "R-n" {
				i = len(ex.readers) - 1
			} else if ev.K == "R-r" {
				i = rng.Intn(len(ex.readers))
			}
			rd := ex.readers[i]
			ex.readers = append(ex.readers[:i:i], ex.readers[i+1:]...)
			ex.mu.Lock()
			if ex.openIDs[rd.id]--; ex.openIDs[rd.id] <= 0 {
				delete(ex.openIDs, rd.id)
			}
			ex.mu.Unlock()
			if err := rd.tx.Rollback(); err != nil {
				ex.r.Fail("rollback", "%s: reader Rollback: %v", when, err)
			}
		case "WC", "WR", "WF", "WM":
			batch := cs.Batches[nextBatch%len(cs.Batches)]
			nextBatch++
			sit := fmt.Sprintf("readers[%s] %s", ex.readerPattern(), ev.K)
			prevNewest := ex.newest
			if ex.r.Exec(&gen.Step{Op: "begin", W: true}) {
				return
			}
			wid := ex.r.Tx.ID()
			if ex.mon.Reclaim && len(ex.readers) == 0 {
				// inside the first write transaction begun with no reader open every page released so far is reusable
				ex.st.BeginNoReaders++
				if st := ex.r.DB.VerifFreelist(); st != nil {
					np := 0
					for _, l := range st.Pending {
						np += len(l)
					}
					if np != 0 {
						ex.r.Fail("reclaim:pending-at-begin", "%s: %d pages still pending inside a write transaction begun with no reader open", when, np)
					}
					if ex.collectUnreachable(st, when) {
						return
					}
				}
			}
			for i := range batch {
				if ex.r.Exec(&batch[i]) {
					ex.collect()
					return
				}
			}
			switch ev.K {
			case "WC":
				if ex.r.Exec(&gen.Step{Op: "commit"}) {
					ex.collect()
					return
				}
				ex.st.Commits++
				ex.dumps[wid] = exec.ModelDump(ex.r.Sim.Committed)
			case "WR":
				if ex.r.Exec(&gen.Step{Op: "rollback"}) {
					return
				}
				ex.st.Rollbacks++
			case "WF", "WM":
				nf := len(ex.r.FaultLog)
				how := fmt.Sprintf("fail:%d", 1+ev.A)
				if ev.K == "WM" {
					// one more value that no run of free pages can hold, then a commit under an unsatisfiable size limit
					how = "maxsize"
					if ex.r.Exec(&gen.Step{Op: "put", P: []int{0}, K: &gen.K{ID: 900 + ev.A%3}, V: &gen.V{Seed: uint32(ev.A)*7919 + uint32(nextBatch), Len: (120 + 10*(ev.A%5)) * ex.ps}}) {
						ex.collect()
						return
					}
				}
				if ex.r.Exec(&gen.Step{Op: "commit", How: how}) {
					ex.collect()
					return
				}
				if len(ex.r.FaultLog) > nf {
					fo := ex.r.FaultLog[len(ex.r.FaultLog)-1]
					if fo.FiredOp == "" || fo.Present {
						ex.dumps[wid] = exec.ModelDump(ex.r.Sim.Committed)
						if fo.Present {
							ex.st.FailedPresent++
						}
					}
					if fo.FiredOp == "maxsize" {
						ex.st.SizeRejects++
					}
					if fo.FiredOp != "" {
						ex.st.FailedCommits++
						sit += ":" + fo.FiredOp
					} else {
						ex.st.Commits++
					}
				}
			}
			ex.st.Situations[sit]++
			// C10 bounded progress: after a commit with no reader open at most the pages released by that very commit are withheld
			if ex.mon.Reclaim && len(ex.readers) == 0 && ev.K == "WC" {
				if st := ex.r.DB.VerifFreelist(); st != nil {
					np := 0
					for _, l := range st.Pending {
						np += len(l)
					}
					ex.mu.Lock()
					released := 0
					for pg := range ex.pages[prevNewest] {
						if _, still := ex.pages[ex.newest][pg]; !still {
							released++
						}
					}
					ex.mu.Unlock()
					if np > released {
						ex.r.Fail("reclaim:withheld", "%s: after a commit with no reader open %d pages are pending, but the commit released only %d", when, np, released)
					}
					if s := ex.r.DB.Stats(); s.PendingPageN != np {
						ex.r.Fail("reclaim:stats", "%s: Stats.PendingPageN=%d, allocator has %d", when, s.PendingPageN, np)
					}
				}
			}
		case "RO":
			if len(ex.readers) > 0 {
				continue
			}
			if ex.r.Exec(&gen.Step{Op: "close"}) {
				return
			}
			// the options of a session may differ from those of the previous one: the backend (A odd) and,
			// persistently for the rest of the sequence, freelist-sync (A mod 4 >= 2: a file last written with a
			// persisted list is continued without one and vice versa)
			if ev.A%4 >= 2 {
				cs.Opts.NoFreelistSync = !cs.Opts.NoFreelistSync
				ex.st.ModeFlips++
			}
			o := cs.Opts
			if ev.A%2 == 1 {
				if o.Freelist == "array" {
					o.Freelist = "hashmap"
				} else {
					o.Freelist = "array"
				}
			}
			if ex.r.Exec(&gen.Step{Op: "reopen", Opts: &o}) {
				ex.collect()
				return
			}
			ex.st.Reopens++
			id, ok := ex.registerFromFile(0)
			if ok {
				ex.dumps[id] = exec.ModelDump(ex.r.Sim.Committed)
			}
		}
		if ex.collect() {
			return
		}
		ex.checkReaders(when)
		ex.checkReclaim(when)
		if ex.collect() {
			return
		}
	}
	return
}

// collectUnreachable: free set == [2,hwm) minus the pages of the newest version (no readers, nothing pending).
func (ex *explorer) collectUnreachable(st *bolt.VerifFreelistState, when string) bool {
	img, err := os.ReadFile(ex.path)
	if err != nil {
		return false
	}
	d := decode.Decode(img, decode.Options{NoContent: true})
	if d.Chosen < 0 || len(d.Errors) > 0 {
		return false
	}
	want := d.Unreachable()
	if len(want) != len(st.Free) {
		ex.r.Fail("reclaim:not-all-free", "%s: with no reader open the next writer finds %d reusable pages, but %d pages are unreachable in the file", when, len(st.Free), len(want))
		return true
	}
	for i := range want {
		if want[i] != uint64(st.Free[i]) {
			ex.r.Fail("reclaim:not-all-free", "%s: free set differs from the unreachable set at index %d (%d vs %d)", when, i, st.Free[i], want[i])
			return true
		}
	}
	return false
}

// ------------------------------------------------------------ case generation

// explorerBatches: write batches built to recycle pages as fast as the freelist allows.
func explorerBatches(r *rand.Rand, ps int, n int) [][]gen.Step {
	var out [][]gen.Step
	K := 12 + r.Intn(30)
	vl := ps/8 + r.Intn(ps/4)
	for b := 0; b < n; b++ {
		var st []gen.Step
		st = append(st, gen.Step{Op: "createIf", N: 0})
		switch r.Intn(10) {
		case 8: // keys of half a page to a page: leaves beginning with them give branch pages with overflow pages
			for i := 0; i < 6+r.Intn(6); i++ {
				st = append(st, gen.Step{Op: "put", P: []int{0}, K: &gen.K{ID: 600 + r.Intn(12), Len: ps/2 + r.Intn(ps/2)}, V: &gen.V{Seed: r.Uint32(), Len: r.Intn(60)}})
			}
			st = append(st, gen.Step{Op: "del", P: []int{0}, K: &gen.K{ID: 600 + r.Intn(12), Len: ps / 2}})
		case 9: // a nested bucket is filled and moved to another parent in the same transaction, and back later
			st = append(st, gen.Step{Op: "createIf", N: 1}, gen.Step{Op: "createIf", P: []int{0}, N: 4})
			for i := 0; i < K/2; i++ {
				st = append(st, gen.Step{Op: "put", P: []int{0, 4}, K: &gen.K{ID: r.Intn(K)}, V: &gen.V{Seed: r.Uint32(), Len: vl / 2}})
			}
			st = append(st, gen.Step{Op: "move", P: []int{0}, N: 4, D: []int{1}}, gen.Step{Op: "move", P: []int{1}, N: 4, D: []int{0}})
			st = append(st, gen.Step{Op: "move", P: []int{0}, N: 4, D: []int{1}}, gen.Step{Op: "delBucket", P: []int{1}, N: 4})
		case 0, 1, 2: // overwrite the same keys
			for i := 0; i < K; i++ {
				st = append(st, gen.Step{Op: "put", P: []int{0}, K: &gen.K{ID: i}, V: &gen.V{Seed: r.Uint32(), Len: vl}})
			}
		case 3: // multi-page values
			st = append(st, gen.Step{Op: "put", P: []int{0}, K: &gen.K{ID: 500 + r.Intn(3)}, V: &gen.V{Seed: r.Uint32(), Len: ps + r.Intn(3*ps)}})
			for i := 0; i < K/3; i++ {
				st = append(st, gen.Step{Op: "put", P: []int{0}, K: &gen.K{ID: r.Intn(K)}, V: &gen.V{Seed: r.Uint32(), Len: vl}})
			}
		case 4: // delete and recreate a bucket
			st = append(st, gen.Step{Op: "createIf", N: 1}, gen.Step{Op: "delBucket", N: 1}, gen.Step{Op: "create", N: 1})
			for i := 0; i < K; i++ {
				st = append(st, gen.Step{Op: "put", P: []int{1}, K: &gen.K{ID: i}, V: &gen.V{Seed: r.Uint32(), Len: vl / 2}})
			}
		case 5: // range delete and refill
			st = append(st, gen.Step{Op: "delRange", P: []int{0}, K: &gen.K{ID: r.Intn(K)}, K2: &gen.K{ID: K, Len: 40}})
			for i := 0; i < K/2; i++ {
				st = append(st, gen.Step{Op: "put", P: []int{0}, K: &gen.K{ID: r.Intn(K)}, V: &gen.V{Seed: r.Uint32(), Len: vl}})
			}
		case 6: // nested bucket, sequences
			st = append(st, gen.Step{Op: "createIf", P: []int{0}, N: 2}, gen.Step{Op: "nextSeq", P: []int{0, 2}})
			for i := 0; i < K/2; i++ {
				st = append(st, gen.Step{Op: "put", P: []int{0, 2}, K: &gen.K{ID: r.Intn(K)}, V: &gen.V{Seed: r.Uint32(), Len: r.Intn(60)}})
			}
		case 7: // small touch
			st = append(st, gen.Step{Op: "put", P: []int{0}, K: &gen.K{ID: r.Intn(K)}, V: &gen.V{Seed: r.Uint32(), Len: r.Intn(40)}})
			st = append(st, gen.Step{Op: "del", P: []int{0}, K: &gen.K{ID: r.Intn(K)}})
		}
		out = append(out, st)
	}
	return out
}

var exAlphabet = []string{"R+", "R-o", "R-n", "WC", "WR", "WF", "RO"}

// enumerate all legal event sequences up to length n (canonicalised: no-op events removed).
func exEnumerate(n int) [][]exEvent {
	var out [][]exEvent
	var rec func(cur []exEvent, readers int)
	rec = func(cur []exEvent, readers int) {
		if len(cur) > 0 {
			out = append(out, append([]exEvent{}, cur...))
		}
		if len(cur) == n {
			return
		}
		for _, k := range exAlphabet {
			nr := readers
			switch k {
			case "R+":
				if readers >= 3 {
					continue
				}
				nr++
			case "R-o":
				if readers == 0 {
					continue
				}
				nr--
			case "R-n":
				if readers < 2 {
					continue // same as R-o with one reader
				}
				nr--
			case "RO":
				if readers > 0 || len(cur) == 0 {
					continue
				}
			}
			rec(append(cur, exEvent{K: k, A: len(cur) * 2}), nr)
		}
	}
	rec(nil, 0)
	return out
}

// only maximal sequences are needed: every prefix is exercised on the way.
func exMaximal(n int) [][]exEvent {
	var out [][]exEvent
	for _, s := range exEnumerate(n) {
		if len(s) == n {
			out = append(out, s)
		}
	}
	return out
}

func explorerCases(seed int64, enumLen int, nRandom int, lenLo, lenHi int) []*exCase {
	var out []*exCase
	cfgs := []gen.OpenOpts{}
	for _, ps := range []int{1024, 4096} {
		for _, fl := range backends {
			for _, nfs := range []bool{false, true} {
				cfgs = append(cfgs, gen.OpenOpts{PageSize: ps, Freelist: fl, NoFreelistSync: nfs, InitialMmapSize: 64 << 20})
			}
		}
	}
	ci := 0
	for i, evs := range exMaximal(enumLen) {
		r := rand.New(rand.NewSource(seed*999983 + int64(i)))
		o := cfgs[i%len(cfgs)]
		// two warm-up commits so that there are free pages to recycle
		full := append([]exEvent{{K: "WC"}, {K: "WC"}}, evs...)
		for k := range full {
			if full[k].K == "WF" {
				// which I/O call of the commit fails (1..6), and every third failing commit is a size-limit rejection instead
				full[k].A = (i/len(cfgs) + 2*k) % 6
				if (i/len(cfgs)+k)%3 == 0 {
					full[k].K = "WM"
				}
			}
			if full[k].K == "RO" {
				full[k].A = (i/len(cfgs) + k) % 4 // reopen variants: same options, other backend, other freelist-sync mode, both
			}
		}
		// tail: close the readers' window with two more writers so that a page released too early is certainly rewritten
		full = append(full, exEvent{K: "WC"}, exEvent{K: "WC"})
		out = append(out, &exCase{Name: "enum", Seed: seed, Case: ci, Opts: o, Batches: explorerBatches(r, o.PageSize, 6), Events: full})
		ci++
	}
	for i := 0; i < nRandom; i++ {
		r := rand.New(rand.NewSource(seed*999983 + 7777777 + int64(i)))
		o := cfgs[r.Intn(len(cfgs))]
		n := lenLo + r.Intn(lenHi-lenLo+1)
		evs := []exEvent{{K: "WC"}}
		for j := 0; j < n; j++ {
			ks := []string{"R+", "R+", "R-o", "R-n", "R-r", "WC", "WC", "WC", "WR", "WF", "WM", "RO"}
			evs = append(evs, exEvent{K: ks[r.Intn(len(ks))], A: r.Intn(14)})
		}
		out = append(out, &exCase{Name: "random", Seed: seed, Case: ci, Opts: o, Batches: explorerBatches(r, o.PageSize, 10), Events: evs})
		ci++
	}
	return out
}

type exAgg struct {
	Cases      int
	St         exStats
	Samples    []string
	Situations map[string]int
}

// runExplorer executes the cases in child processes and reports violations under the current property.
func (c *Ctx) runExplorer(cases []*exCase, mon exMon, batch int, keep func(kind string) bool) *exAgg {
	agg := &exAgg{Situations: map[string]int{}}
	dir := filepath.Join(c.Tmp, "cases")
	_ = os.MkdirAll(dir, 0700)
	files := make([]string, len(cases))
	for i, cs := range cases {
		files[i] = filepath.Join(dir, fmt.Sprintf("%s-%s-seed%d-case%d.json", c.Prop, cs.Name, cs.Seed, cs.Case))
		b, _ := json.Marshal(cs)
		_ = os.WriteFile(files[i], b, 0600)
	}
	nb := (len(cases) + batch - 1) / batch
	results := make([][]exResult, nb)
	c.Parallel(nb, func(bi int) {
		lo, hi := bi*batch, (bi+1)*batch
		if hi > len(files) {
			hi = len(files)
		}
		remaining := files[lo:hi]
		for attempt := 0; len(remaining) > 0 && attempt < 100; attempt++ {
			res := c.RunChild("explore", exArgs{Cases: remaining, Mon: mon, Dir: c.Tmp}, time.Duration(90+10*len(remaining))*time.Second)
			for _, l := range res.Lines {
				var r exResult
				if json.Unmarshal([]byte(l), &r) == nil {
					results[bi] = append(results[bi], r)
				}
			}
			unf := res.Unfinished()
			if res.ExitErr == nil && len(unf) == 0 {
				break
			}
			idx := len(res.Finished)
			if len(unf) > 0 {
				fmt.Sscan(unf[0], &idx)
			}
			if idx >= len(remaining) {
				c.Inconclusive(fmt.Sprintf("child failed outside a case: %v %s", res.ExitErr, tail(res.Stderr, 300)))
				break
			}
			if res.TimedOut {
				c.Inconclusive("watchdog fired in " + filepath.Base(remaining[idx]))
			} else {
				results[bi] = append(results[bi], exResult{File: remaining[idx], Crash: fmt.Sprintf("%v\n%s", res.ExitErr, res.Stderr)})
			}
			remaining = remaining[idx+1:]
		}
	})
	for _, rs := range results {
		for _, r := range rs {
			if r.Crash != "" {
				rp := c.keepReplay(r.File)
				c.Report("crash:"+crashKind(r.Crash), "process under test died: "+tail(r.Crash, 1500), rp)
				continue
			}
			agg.Cases++
			s := r.Stats
			a := &agg.St
			a.Events += s.Events
			a.ReaderDumps += s.ReaderDumps
			a.WritesChecked += s.WritesChecked
			a.WritesWithOlder += s.WritesWithOlder
			a.MetaWrites += s.MetaWrites
			a.Versions += s.Versions
			a.Commits += s.Commits
			a.Rollbacks += s.Rollbacks
			a.FailedCommits += s.FailedCommits
			a.FailedPresent += s.FailedPresent
			a.Reopens += s.Reopens
			a.ModeFlips += s.ModeFlips
			a.SizeRejects += s.SizeRejects
			a.ReclaimChecks += s.ReclaimChecks
			a.BeginNoReaders += s.BeginNoReaders
			a.PagesRecycled += s.PagesRecycled
			if s.MaxReaders > a.MaxReaders {
				a.MaxReaders = s.MaxReaders
			}
			for k, v := range s.Situations {
				agg.Situations[k] += v
			}
			if len(r.Viol) > 0 {
				v := r.Viol[0]
				if keep == nil || keep(v.Kind) {
					rp := c.keepReplay(r.File)
					c.Report(v.Kind, fmt.Sprintf("%s: %s", filepath.Base(r.File), v.String()), rp)
				}
			}
		}
	}
	for i := 0; i < len(cases) && i < 3; i++ {
		var ks []string
		for _, e := range cases[i*len(cases)/3].Events {
			ks = append(ks, e.K)
		}
		agg.Samples = append(agg.Samples, fmt.Sprintf("%s case %d %s: %s", cases[i*len(cases)/3].Name, cases[i*len(cases)/3].Case, cases[i*len(cases)/3].Opts.String(), strings.Join(ks, " ")))
	}
	return agg
}

func (a *exAgg) coverage(rule string) map[string]any {
	nontrivial := 0
	for k := range a.Situations {
		if !strings.HasPrefix(k, "readers[none]") {
			nontrivial++
		}
	}
	return map[string]any{
		"evaluations":         a.St.Events,
		"sequences":           a.Cases,
		"distinct_nontrivial": nontrivial,
		"rule":                rule,
		"samples":             a.Samples,
		"events":              a.St.Events,
		"reader_full_redumps": a.St.ReaderDumps,
		"data_writes_checked": a.St.WritesChecked,
		"data_writes_checked_with_older_reader_open": a.St.WritesWithOlder,
		"writes_landing_on_recycled_pages":           a.St.PagesRecycled,
		"meta_writes_checked":                        a.St.MetaWrites,
		"versions_tracked":                           a.St.Versions,
		"commits":                                    a.St.Commits,
		"rollbacks":                                  a.St.Rollbacks,
		"failed_commits":                             a.St.FailedCommits,
		"failed_commits_present":                     a.St.FailedPresent,
		"commits_rejected_by_size_limit":             a.St.SizeRejects,
		"reopens":                                    a.St.Reopens,
		"reopens_switching_freelist_sync":            a.St.ModeFlips,
		"max_simultaneous_readers":                   a.St.MaxReaders,
		"allocator_invariant_checks":                 a.St.ReclaimChecks,
		"writer_begins_with_no_reader_checked":       a.St.BeginNoReaders,
		"distinct_situations_all":                    len(a.Situations),
	}
}

func replayExplorer(c *Ctx, mon exMon) int {
	b, err := os.ReadFile(c.Replay)
	var cs exCase
	if err != nil || json.Unmarshal(b, &cs) != nil {
		fmt.Println("cannot load replay")
		return 2
	}
	ex := newExplorer(filepath.Join(c.Tmp, "replay.db"), mon)
	viol := ex.run(&cs)
	for _, v := range viol {
		fmt.Printf("VIOLATION property=%s replay=%s\n  %s\n", c.Prop, c.Replay, v.String())
	}
	if len(viol) > 0 {
		return 1
	}
	fmt.Println("replay: no violation")
	return 0
}
