package drivers

import (
	"encoding/json"
	"fmt"
	"math/rand"

	"go.etcd.io/bbolt/verifh/exec"
	"go.etcd.io/bbolt/verifh/gen"
)

func init() { Drivers["C13"] = runC13 }

func schedOpts(r *rand.Rand, ro bool) gen.OpenOpts {
	o := gen.OpenOpts{
		PageSize:        pageSizes[r.Intn(len(pageSizes))],
		Freelist:        backends[r.Intn(2)],
		NoFreelistSync:  r.Intn(2) == 0,
		NoGrowSync:      r.Intn(2) == 0,
		InitialMmapSize: []int{0, 1 << 20, 1 << 30}[r.Intn(3)],
		Mlock:           r.Intn(4) == 0,
		PreLoadFreelist: r.Intn(2) == 0,
		StrictMode:      r.Intn(3) == 0,
		ReadOnly:        ro,
	}
	return o
}

// withSchedule returns a copy of p in which every open gets options drawn
// from schedule s, and read-only opens are interposed before some reopens.
func withSchedule(p *gen.Program, s int) *gen.Program {
	r := rand.New(rand.NewSource(p.Seed*7919 + int64(p.Case)*104729 + int64(s)*15485863 + 3))
	q := &gen.Program{Name: fmt.Sprintf("%s-sched%d", p.Name, s), Seed: p.Seed, Case: p.Case}
	aux := func(st gen.Step) gen.Step { st.How = "aux"; return st }
	for _, st := range p.Steps {
		switch st.Op {
		case "open":
			o := schedOpts(r, false)
			st.Opts = &o
		case "reopen":
			if r.Intn(3) == 0 {
				ro := schedOpts(r, true)
				q.Steps = append(q.Steps,
					aux(gen.Step{Op: "reopen", Opts: &ro}),
					aux(gen.Step{Op: "begin", W: true}), // must be refused
					aux(gen.Step{Op: "begin", W: false}),
					aux(gen.Step{Op: "dump"}),
					aux(gen.Step{Op: "rollback"}),
					aux(gen.Step{Op: "close"}))
			}
			o := schedOpts(r, false)
			st.Opts = &o
		}
		q.Steps = append(q.Steps, st)
	}
	return q
}

func runC13(c *Ctx) int {
	mon := exec.Monitors{API: true, Dumps: true, Accounting: true, FreeExact: true, TxCheck: true}
	if c.Replay != "" {
		return c.replayAPI(mon, 1_000_000)
	}
	nBase := c.Pick(80, 1500)
	nSched := c.Pick(6, 40)
	base := apiPrograms(c.Seed+300, nBase, []string{"mixed", "buckets", "structural", "overwrite", "bigkeys"}, func(i int, cfg *gen.Config) {
		cfg.HeldReaders = 0 // the schedules choose the initial map size themselves; a held reader needs a large one
		cfg.Reopen = 0.45
		cfg.ROProbe = 0.1
		cfg.Txs = 9
		cfg.NoBigKeys = cfg.Profile != "bigkeys"
	})
	var progs []*gen.Program
	for _, b := range base {
		for s := 0; s < nSched; s++ {
			progs = append(progs, withSchedule(b, s))
		}
	}
	// runPrograms keeps transcripts in the case stats; collect them per base program
	type key struct {
		seed int64
		cs   int
	}
	agg := c.runPrograms(progs, mon, c.Pick(12, 60), 1_000_000, func(cs *apiCase) bool {
		return cs.Stats.Reopens >= 1 && cs.Stats.Commits >= 2
	}, nil)
	_ = key{}
	cov := agg.coverage(fmt.Sprintf("%d base programs x %d option schedules; each schedule assigns to every open independently: freelist backend, freelist-sync, page-size option, initial map size 0/1MiB/1GiB, grow-sync, Mlock, PreLoadFreelist, StrictMode, and interposes read-only opens (with/without preload); every API result is compared with the model M in every schedule, the transcripts (hash of all API results and dumps) of all schedules of one program must be identical, and at every open/commit the allocator's exact free set must equal the unreachable pages D computes from the file. Non-trivial: >= 1 reopen and >= 2 commits; distinct = structural fingerprint.", nBase, nSched))
	// transcript comparison
	groups := map[string]map[string][]string{}
	for _, tr := range c.transcripts {
		g := groups[tr.base]
		if g == nil {
			g = map[string][]string{}
			groups[tr.base] = g
		}
		g[tr.hash] = append(g[tr.hash], tr.file)
	}
	ncmp := 0
	for b, g := range groups {
		ncmp++
		if len(g) > 1 {
			var files []string
			for _, fs := range g {
				files = append(files, fs[0])
			}
			bs, _ := json.Marshal(g)
			rp := c.SaveReplay("transcripts-"+b+".json", json.RawMessage(bs))
			c.Report("transcript-differs", fmt.Sprintf("base program %s: %d different transcripts among its schedules (%v)", b, len(g), files), rp)
		}
	}
	cov["programs_with_transcripts_compared"] = ncmp
	cov["schedules_per_program"] = nSched
	if ncmp == 0 {
		c.Inconclusive("no transcripts compared")
	}
	return c.Finish("exploration", cov, []string{
		"transaction ids are not part of the transcript (reopening a no-freelist-sync file in sync mode legitimately spends one id on the freelist flush)",
		"D (harness/decode) computes the unreachable set independently of bbolt's scan",
	})
}
