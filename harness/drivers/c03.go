package drivers

import (
	"encoding/binary"
	"encoding/json"
	"errors"
	"fmt"
	"math/rand"
	"os"
	"path/filepath"
	"runtime"
	"sort"
	"strings"
	"sync"
	"sync/atomic"
	"time"

	"github.com/anishathalye/porcupine"
	bolt "go.etcd.io/bbolt"
	berrors "go.etcd.io/bbolt/errors"
	"go.etcd.io/bbolt/verifh/exec"
	"go.etcd.io/bbolt/verifh/gen"
	"go.etcd.io/bbolt/verifh/iotrace"
)

func init() {
	Drivers["C03"] = runC03
	ChildModes["c03"] = childC03
}

type c03Args struct {
	Seed       int64  `json:"seed"`
	Rounds     int    `json:"rounds"`
	Goroutines int    `json:"goroutines"`
	OpsEach    int    `json:"ops_each"`
	Dir        string `json:"dir"`
	Freelist   string `json:"freelist"`
	CloseEarly bool   `json:"close_early"`
}

type c03Body struct {
	UID      int64  `json:"uid"`
	G        int    `json:"g"`
	Via      string `json:"via"` // update | begin | batch
	Plan     string `json:"plan"`
	TxID     int    `json:"txid"`
	X        int64  `json:"x"` // counter value the body saw
	Call     int64  `json:"call"`
	Ret      int64  `json:"ret"`
	Outcome  string `json:"outcome"` // committed | failed
	ErrText  string `json:"err,omitempty"`
	Invoked  int    `json:"invoked"`
	RegKey   int    `json:"reg_key"`
	RegWrote int64  `json:"reg_wrote"`
}

type c03Read struct {
	G      int   `json:"g"`
	TxID   int   `json:"txid"`
	X      int64 `json:"x"`
	L      int   `json:"l"`
	Call   int64 `json:"call"`
	Ret    int64 `json:"ret"`
	RegKey int   `json:"reg_key"`
	RegVal int64 `json:"reg_val"`
}

type c03Res struct {
	Round       int              `json:"round"`
	Viol        []string         `json:"viol,omitempty"`
	Bodies      int              `json:"bodies"`
	Committed   int              `json:"committed"`
	Failed      map[string]int   `json:"failed"`
	Reads       int              `json:"reads"`
	MaxInWriter int32            `json:"max_in_writer"`
	TxIDs       int              `json:"distinct_committed_txids"`
	BatchShared int              `json:"bodies_sharing_a_batch_tx"`
	Porcupine   string           `json:"porcupine"`
	PorcOps     int              `json:"porcupine_ops"`
	Overlaps    int              `json:"overlapping_op_pairs"`
	Stats       int              `json:"stats_calls"`
	SizeRejects int              `json:"size_rejects"`
	Yields      map[string]int64 `json:"yields,omitempty"`
	Hang        string           `json:"hang,omitempty"`
	History     []c03Body        `json:"history,omitempty"` // kept only on violation
}

var errPlanned = errors.New("planned body error")

const nRegKeys = 8

func u64(b []byte) int64 {
	if len(b) < 8 {
		return 0
	}
	return int64(binary.BigEndian.Uint64(b))
}

func p64(v int64) []byte {
	b := make([]byte, 8)
	binary.BigEndian.PutUint64(b, uint64(v))
	return b
}

func childC03(argfile string) {
	var a c03Args
	ReadArgs(argfile, &a)
	for round := 0; round < a.Rounds; round++ {
		id := fmt.Sprintf("%d", round)
		ChildStart(id)
		ChildDone(id, c03Round(&a, round))
	}
}

func c03Round(a *c03Args, round int) (res c03Res) {
	res = c03Res{Round: round, Failed: map[string]int{}}
	path := filepath.Join(a.Dir, fmt.Sprintf("c03-%d-%d.db", os.Getpid(), round))
	defer os.Remove(path)
	tr := iotrace.New(path)
	tr.EnableYields(a.Seed*977 + int64(round))
	defer iotrace.Uninstall()
	// every third round runs against a size limit the growing list reaches: from then on commits are rejected at
	// arbitrary allocation points (data pages, the freelist page) by Update, Batch and manual Commit alike, and
	// everybody else must keep making progress (no writer lock left behind)
	limited := round%3 == 2
	oo := gen.OpenOpts{Freelist: a.Freelist, PageSize: 4096}
	if limited {
		oo.MaxSize = 24 * 4096
	}
	db, err := exec.Open(path, oo)
	if err != nil {
		res.Viol = append(res.Viol, "open: "+err.Error())
		return
	}
	db.MaxBatchDelay = time.Duration(1+round%3) * time.Millisecond
	db.MaxBatchSize = []int{3, 1000, 2}[round%3]
	_ = db.Update(func(tx *bolt.Tx) error {
		b, _ := tx.CreateBucket([]byte("s"))
		_ = b.Put([]byte("X"), p64(0))
		_, _ = tx.CreateBucket([]byte("L"))
		_, _ = tx.CreateBucket([]byte("R"))
		return nil
	})
	var mu sync.Mutex
	var bodies []c03Body
	var reads []c03Read
	var viol []string
	fail := func(f string, x ...any) {
		mu.Lock()
		if len(viol) < 10 {
			viol = append(viol, fmt.Sprintf(f, x...))
		}
		mu.Unlock()
	}
	var inWriter, maxIn int32
	var clock, uidSeq, progress, statsCalls, sizeRejects atomic.Int64
	stamp := func() int64 { return clock.Add(1) }

	// the write body: read X and len(L), write X+1 and L+uid, write a register; then act as planned
	body := func(tx *bolt.Tx, rec *c03Body, plan string) error {
		n := atomic.AddInt32(&inWriter, 1)
		for {
			m := atomic.LoadInt32(&maxIn)
			if n <= m || atomic.CompareAndSwapInt32(&maxIn, m, n) {
				break
			}
		}
		defer atomic.AddInt32(&inWriter, -1)
		if n > 1 {
			fail("two write transaction bodies inside the database at once")
		}
		rec.Invoked++
		rec.TxID = tx.ID()
		s := tx.Bucket([]byte("s"))
		l := tx.Bucket([]byte("L"))
		x := u64(s.Get([]byte("X")))
		cnt := 0
		_ = l.ForEach(func(k, v []byte) error { cnt++; return nil })
		if int64(cnt) != x {
			fail("write tx %d sees counter %d but %d list entries (it does not see exactly the committed transactions plus its own changes)", tx.ID(), x, cnt)
		}
		rec.X = x
		runtime.Gosched()
		if err := s.Put([]byte("X"), p64(x+1)); err != nil {
			return err
		}
		if err := l.Put(p64(rec.UID), p64(x)); err != nil {
			return err
		}
		if err := tx.Bucket([]byte("R")).Put([]byte{byte('a' + rec.RegKey)}, p64(rec.RegWrote)); err != nil {
			return err
		}
		switch plan {
		case "error":
			return errPlanned
		case "panic":
			panic("planned body panic")
		}
		return nil
	}

	var wg sync.WaitGroup
	stopAll := make(chan struct{})
	closed := atomic.Bool{}
	worker := func(g int) {
		defer wg.Done()
		r := rand.New(rand.NewSource(a.Seed*31 + int64(round)*1013 + int64(g)))
		for op := 0; op < a.OpsEach; op++ {
			select {
			case <-stopAll:
				return
			default:
			}
			progress.Add(1)
			k := r.Intn(100)
			switch {
			case k < 55: // a write body
				plan := "commit"
				switch p := r.Intn(10); {
				case p == 0:
					plan = "error"
				case p == 1:
					plan = "panic"
				case p == 2:
					plan = "rollback"
				}
				rec := c03Body{UID: uidSeq.Add(1), G: g, Plan: plan, RegKey: r.Intn(nRegKeys)}
				rec.RegWrote = rec.UID
				via := []string{"update", "begin", "batch"}[r.Intn(3)]
				if plan == "rollback" {
					via = "begin"
				}
				rec.Via = via
				rec.Call = stamp()
				var err error
				func() {
					defer func() {
						if x := recover(); x != nil {
							err = fmt.Errorf("panic: %v", x)
						}
					}()
					switch via {
					case "update":
						err = db.Update(func(tx *bolt.Tx) error { return body(tx, &rec, plan) })
					case "batch":
						err = db.Batch(func(tx *bolt.Tx) error { return body(tx, &rec, plan) })
					case "begin":
						var tx *bolt.Tx
						tx, err = db.Begin(true)
						if err != nil {
							return
						}
						func() {
							defer func() {
								if x := recover(); x != nil {
									_ = tx.Rollback()
									err = fmt.Errorf("panic: %v", x)
								}
							}()
							err = body(tx, &rec, plan)
						}()
						if err != nil {
							if tx.DB() != nil {
								_ = tx.Rollback()
							}
							return
						}
						if plan == "rollback" {
							_ = tx.Rollback()
							err = errors.New("rolled back")
							return
						}
						err = tx.Commit()
					}
				}()
				rec.Ret = stamp()
				if err == nil {
					rec.Outcome = "committed"
				} else {
					rec.Outcome = "failed"
					rec.ErrText = err.Error()
					if errors.Is(err, berrors.ErrDatabaseNotOpen) {
						if !closed.Load() {
							fail("ErrDatabaseNotOpen before Close was called")
						}
						return
					}
					if plan == "commit" && !(limited && errors.Is(err, berrors.ErrMaxSizeReached)) {
						fail("body %d (%s) planned to commit failed: %v", rec.UID, via, err)
					}
					if errors.Is(err, berrors.ErrMaxSizeReached) {
						sizeRejects.Add(1)
					}
				}
				if err == nil && plan != "commit" {
					fail("body %d planned to %s (%s) reported success", rec.UID, plan, via)
				}
				mu.Lock()
				bodies = append(bodies, rec)
				mu.Unlock()
			case k < 90: // a read snapshot
				rd := c03Read{G: g, RegKey: r.Intn(nRegKeys)}
				rd.Call = stamp()
				err := db.View(func(tx *bolt.Tx) error {
					rd.TxID = tx.ID()
					rd.X = u64(tx.Bucket([]byte("s")).Get([]byte("X")))
					n := 0
					_ = tx.Bucket([]byte("L")).ForEach(func(k, v []byte) error { n++; return nil })
					rd.L = n
					runtime.Gosched()
					if x2 := u64(tx.Bucket([]byte("s")).Get([]byte("X"))); x2 != rd.X {
						fail("read tx %d: counter changed from %d to %d inside one snapshot", tx.ID(), rd.X, x2)
					}
					rd.RegVal = u64(tx.Bucket([]byte("R")).Get([]byte{byte('a' + rd.RegKey)}))
					return nil
				})
				rd.Ret = stamp()
				if err != nil {
					if errors.Is(err, berrors.ErrDatabaseNotOpen) && closed.Load() {
						return
					}
					fail("View: %v", err)
					continue
				}
				if int64(rd.L) != rd.X {
					fail("read tx %d sees counter %d but %d list entries (a transaction became visible in part)", rd.TxID, rd.X, rd.L)
				}
				mu.Lock()
				reads = append(reads, rd)
				mu.Unlock()
			default:
				s := db.Stats()
				statsCalls.Add(1)
				if s.OpenTxN < 0 {
					fail("Stats().OpenTxN = %d", s.OpenTxN)
				}
			}
		}
	}
	for g := 0; g < a.Goroutines; g++ {
		wg.Add(1)
		go worker(g)
	}
	done := make(chan struct{})
	go func() { wg.Wait(); close(done) }()
	if a.CloseEarly {
		// Close races with everything else; later calls must fail cleanly
		go func() {
			for progress.Load() < int64(a.Goroutines*a.OpsEach/2) {
				select {
				case <-done:
					return
				case <-stopAll:
					return
				case <-time.After(200 * time.Microsecond):
				}
			}
			closed.Store(true)
			_ = db.Close()
		}()
	}
	// quiescence detector: all workers parked and no progress in two successive snapshots
	hung := false
	last := int64(-1)
	still := 0
wait:
	for {
		select {
		case <-done:
			break wait
		case <-time.After(3 * time.Second):
			p := progress.Load() + clock.Load()
			if p == last {
				still++
			} else {
				still = 0
			}
			last = p
			if still >= 4 {
				buf := make([]byte, 1<<20)
				n := runtime.Stack(buf, true)
				st := string(buf[:n])
				if parked(st) {
					hung = true
					res.Hang = st
					if len(res.Hang) > 8000 {
						res.Hang = res.Hang[:8000]
					}
					close(stopAll)
					break wait
				}
			}
		}
	}
	if hung {
		res.Viol = append(res.Viol, "lost wake-up / deadlock: every worker goroutine is parked in a lock or channel wait and no operation has completed in two successive snapshots")
		return
	}
	if !closed.Load() {
		closed.Store(true)
		if err := db.Close(); err != nil {
			fail("Close: %v", err)
		}
	}
	res.MaxInWriter = maxIn
	res.Stats = int(statsCalls.Load())
	res.SizeRejects = int(sizeRejects.Load())
	res.Yields = tr.YieldStats()
	res.Viol = viol
	c03Offline(path, a, &res, bodies, reads)
	if len(res.Viol) > 0 {
		res.History = bodies
		if len(res.History) > 400 {
			res.History = res.History[:400]
		}
	}
	return
}

// parked: no goroutine is runnable/running user code except this one.
func parked(stacks string) bool {
	for _, g := range strings.Split(stacks, "\n\n") {
		if !strings.Contains(g, "drivers.c03Round.func") || strings.Contains(g, "runtime.Stack") {
			continue
		}
		first := g
		if i := strings.IndexByte(g, '\n'); i >= 0 {
			first = g[:i]
		}
		if !(strings.Contains(first, "sync.Mutex.Lock") || strings.Contains(first, "semacquire") || strings.Contains(first, "chan receive") || strings.Contains(first, "sync.RWMutex") || strings.Contains(first, "select") || strings.Contains(first, "sync.WaitGroup")) {
			return false
		}
	}
	return true
}

type regIn struct {
	Key   int
	Write bool
	Val   int64
}

// c03Offline: the checks over the recorded history.
func c03Offline(path string, a *c03Args, res *c03Res, bodies []c03Body, reads []c03Read) {
	fail := func(f string, x ...any) {
		if len(res.Viol) < 10 {
			res.Viol = append(res.Viol, fmt.Sprintf(f, x...))
		}
	}
	res.Bodies, res.Reads = len(bodies), len(reads)
	var com []c03Body
	committedUID := map[int64]bool{}
	for _, b := range bodies {
		if b.Outcome == "committed" {
			com = append(com, b)
			committedUID[b.UID] = true
		} else {
			res.Failed[b.Plan]++
		}
	}
	res.Committed = len(com)
	sort.Slice(com, func(i, j int) bool { return com[i].X < com[j].X })
	// each counter value seen exactly once by the committed bodies: 0..n-1
	for i, b := range com {
		if b.X != int64(i) {
			fail("committed bodies do not see the counter values 0..%d exactly once: position %d saw %d (uid %d, tx %d, via %s)", len(com)-1, i, b.X, b.UID, b.TxID, b.Via)
			break
		}
	}
	// ids: increasing with X; distinct committed ids consecutive
	ids := map[int]int{}
	for i, b := range com {
		ids[b.TxID]++
		if i > 0 && com[i-1].TxID > b.TxID {
			fail("commit order contradicts id order: counter %d was written by tx %d, counter %d by tx %d", com[i-1].X, com[i-1].TxID, b.X, b.TxID)
			break
		}
		if i > 0 && com[i-1].TxID == b.TxID && !(com[i-1].Via == "batch" && b.Via == "batch") {
			fail("two committed write transactions carry the same id %d", b.TxID)
			break
		}
	}
	res.TxIDs = len(ids)
	for _, n := range ids {
		if n > 1 {
			res.BatchShared += n
		}
	}
	var idl []int
	for id := range ids {
		idl = append(idl, id)
	}
	sort.Ints(idl)
	for i := 1; i < len(idl); i++ {
		if idl[i] != idl[i-1]+1 {
			fail("committed write transactions do not carry consecutive ids: %d follows %d", idl[i], idl[i-1])
			break
		}
	}
	// real-time order: A returned before B was called => A's effect precedes B's
	byRet := append([]c03Body(nil), com...)
	sort.Slice(byRet, func(i, j int) bool { return byRet[i].Ret < byRet[j].Ret })
	maxXBefore := int64(-1)
	j := 0
	byCall := append([]c03Body(nil), com...)
	sort.Slice(byCall, func(i, k int) bool { return byCall[i].Call < byCall[k].Call })
	for _, b := range byCall {
		for j < len(byRet) && byRet[j].Ret < b.Call {
			if byRet[j].X > maxXBefore {
				maxXBefore = byRet[j].X
			}
			j++
		}
		if b.X <= maxXBefore {
			fail("real-time order violated: body uid %d was called after a body that wrote counter %d had returned, but saw counter %d", b.UID, maxXBefore+1, b.X)
			break
		}
	}
	// a reader's id identifies exactly the version it reads
	cum := map[int]int64{} // txid -> number of committed bodies with id <= txid
	var run int64
	k := 0
	if len(idl) > 0 {
		for id := idl[0] - 1; id <= idl[len(idl)-1]; id++ {
			for k < len(com) && com[k].TxID <= id {
				run++
				k++
			}
			cum[id] = run
		}
	}
	for _, r := range reads {
		want, ok := cum[r.TxID]
		if !ok {
			if len(idl) == 0 || r.TxID < idl[0] {
				want = 0
			} else {
				want = int64(len(com))
			}
		}
		if r.X != want {
			fail("read transaction with id %d saw counter %d, but %d bodies were committed by transactions with id <= %d", r.TxID, r.X, want, r.TxID)
			break
		}
	}
	for _, r := range reads {
		// read must see every commit that returned before it was called
		var must int64
		for _, b := range com {
			if b.Ret < r.Call && b.X+1 > must {
				must = b.X + 1
			}
		}
		if r.X < must {
			fail("read transaction called after the commit of counter %d had returned saw counter %d", must, r.X)
			break
		}
	}
	// final state == serial replay in id order; no effect of a non-committed body
	db, err := bolt.Open(path, 0600, &bolt.Options{ReadOnly: true, Timeout: 5 * time.Second})
	if err != nil {
		fail("reopen: %v", err)
		return
	}
	_ = db.View(func(tx *bolt.Tx) error {
		if x := u64(tx.Bucket([]byte("s")).Get([]byte("X"))); x != int64(len(com)) {
			fail("final counter %d, but %d bodies reported a successful commit", x, len(com))
		}
		n := 0
		_ = tx.Bucket([]byte("L")).ForEach(func(k, v []byte) error {
			n++
			uid := u64(k)
			if !committedUID[uid] {
				fail("the effect of body uid %d is in the database although it did not commit", uid)
			}
			return nil
		})
		if n != len(com) {
			fail("final list has %d entries, %d bodies committed", n, len(com))
		}
		for _, e := range exec.CheckTx(tx) {
			fail("Tx.Check: %s", e)
			break
		}
		return nil
	})
	db.Close()
	// linearizability of the registers, independent of the ids bbolt reports
	var ops []porcupine.Operation
	for _, b := range com {
		ops = append(ops, porcupine.Operation{ClientId: b.G, Input: regIn{Key: b.RegKey, Write: true, Val: b.RegWrote}, Call: b.Call, Output: int64(0), Return: b.Ret})
	}
	for _, r := range reads {
		ops = append(ops, porcupine.Operation{ClientId: r.G, Input: regIn{Key: r.RegKey}, Call: r.Call, Output: r.RegVal, Return: r.Ret})
	}
	// count overlapping pairs (evidence that interleavings occurred)
	sort.Slice(ops, func(i, j int) bool { return ops[i].Call < ops[j].Call })
	for i := 0; i < len(ops); i++ {
		for j := i + 1; j < len(ops) && ops[j].Call < ops[i].Return; j++ {
			res.Overlaps++
		}
	}
	model := porcupine.Model{
		Partition: func(history []porcupine.Operation) [][]porcupine.Operation {
			parts := make([][]porcupine.Operation, nRegKeys)
			for _, o := range history {
				k := o.Input.(regIn).Key
				parts[k] = append(parts[k], o)
			}
			return parts
		},
		Init: func() any { return int64(0) },
		Step: func(st, in, out any) (bool, any) {
			e := in.(regIn)
			if e.Write {
				return true, e.Val
			}
			return out.(int64) == st.(int64), st
		},
		Equal: func(a, b any) bool { return a.(int64) == b.(int64) },
	}
	res.PorcOps = len(ops)
	switch r, _ := porcupine.CheckOperationsVerbose(model, ops, 6*time.Minute); r {
	case porcupine.Ok:
		res.Porcupine = "ok"
	case porcupine.Illegal:
		res.Porcupine = "illegal"
		fail("the recorded history of register writes (committed bodies) and snapshot reads is not linearizable (porcupine)")
	default:
		res.Porcupine = "unknown"
	}
}

func runC03(c *Ctx) int {
	if c.Replay != "" {
		fmt.Println("C03 replay files hold the recorded history and the seeds; schedules are not replayable - re-run ./check C03 with the same VERIF_SEED")
		return 2
	}
	bin := os.Getenv("VCHECK_RACE")
	if bin == "" {
		c.Inconclusive("race-detector build not available")
	} else {
		c.ChildBin = bin
	}
	gs := []int{2, 4, 8, 16, 32}
	nchild := c.Pick(10, 40)
	rounds := c.Pick(3, 12)
	type out struct{ rs []c03Res }
	outs := make([]out, nchild)
	races := 0
	raceText := ""
	var rmu sync.Mutex
	c.Parallel(nchild, func(i int) {
		logp := filepath.Join(c.Tmp, fmt.Sprintf("race-c03-%d", i))
		a := c03Args{Seed: c.Seed*1000 + int64(i), Rounds: rounds, Goroutines: gs[i%len(gs)], OpsEach: c.Pick(60, 150), Dir: c.Tmp, Freelist: backends[(i/5)%2], CloseEarly: i%4 == 3}
		res := c.RunChild("c03", a, 20*time.Minute, "GORACE=halt_on_error=0 log_path="+logp)
		for _, l := range res.Lines {
			var r c03Res
			if json.Unmarshal([]byte(l), &r) == nil {
				outs[i].rs = append(outs[i].rs, r)
			}
		}
		n, first := raceReports(logp)
		rmu.Lock()
		races += n
		if raceText == "" {
			raceText = first
		}
		rmu.Unlock()
		if unf := res.Unfinished(); len(unf) > 0 {
			if res.TimedOut {
				c.Inconclusive(fmt.Sprintf("watchdog fired in concurrent round (goroutines=%d) without quiescence evidence", a.Goroutines))
			} else {
				rp := c.SaveReplay(fmt.Sprintf("c03-crash-%d.json", i), map[string]any{"args": a, "stderr": res.Stderr})
				c.Report("crash:"+crashKind(res.Stderr), "process died: "+tail(res.Stderr, 1500), rp)
			}
		}
	})
	c.ChildBin = ""
	tot := c03Res{Failed: map[string]int{}, Yields: map[string]int64{}}
	roundsRun, inconclusivePorc := 0, 0
	var samples []string
	sit := map[string]bool{}
	for i, o := range outs {
		for _, r := range o.rs {
			roundsRun++
			tot.Bodies += r.Bodies
			tot.Committed += r.Committed
			tot.Reads += r.Reads
			tot.TxIDs += r.TxIDs
			tot.BatchShared += r.BatchShared
			tot.PorcOps += r.PorcOps
			tot.Overlaps += r.Overlaps
			tot.Stats += r.Stats
			tot.SizeRejects += r.SizeRejects
			for k, v := range r.Failed {
				tot.Failed[k] += v
			}
			for k, v := range r.Yields {
				tot.Yields[k] += v
			}
			if r.MaxInWriter > tot.MaxInWriter {
				tot.MaxInWriter = r.MaxInWriter
			}
			if r.Porcupine == "unknown" {
				inconclusivePorc++
			}
			sit[fmt.Sprintf("g=%d overlaps>0=%v batchShared>0=%v failed=%d", gs[i%len(gs)], r.Overlaps > 0, r.BatchShared > 0, len(r.Failed))] = true
			if len(samples) < 3 {
				samples = append(samples, fmt.Sprintf("round: %d goroutines, %d bodies (%d committed, failed %v), %d snapshot reads, %d distinct committed tx ids, %d overlapping operation pairs, porcupine %s over %d ops", gs[i%len(gs)], r.Bodies, r.Committed, r.Failed, r.Reads, r.TxIDs, r.Overlaps, r.Porcupine, r.PorcOps))
			}
			if len(r.Viol) > 0 {
				rp := c.SaveReplay(fmt.Sprintf("c03-%d-round%d.json", i, r.Round), r)
				kind := "history"
				switch {
				case strings.Contains(r.Viol[0], "lost wake-up"):
					kind = "deadlock"
				case strings.Contains(r.Viol[0], "at once"):
					kind = "two-writers"
				case strings.Contains(r.Viol[0], "linearizable"):
					kind = "not-linearizable"
				case strings.Contains(r.Viol[0], "in part"):
					kind = "partial-visibility"
				}
				c.Report(kind, r.Viol[0], rp)
			}
		}
	}
	if races > 0 {
		rp := c.SaveReplay("race-report.json", map[string]any{"reports": races, "first": raceText})
		c.Report("race", fmt.Sprintf("%d data race report(s) from the race detector: %s", races, firstLines(raceText, 12)), rp)
	}
	if inconclusivePorc > 0 {
		c.Inconclusive(fmt.Sprintf("porcupine timed out on %d histories", inconclusivePorc))
	}
	cov := map[string]any{
		"evaluations":                   tot.Bodies + tot.Reads,
		"rounds":                        roundsRun,
		"distinct_nontrivial":           len(sit) + min(roundsRun, tot.Overlaps/1000),
		"rule":                          "evaluations = write bodies + snapshot reads judged; each round: 2/4/8/16/32 goroutines mix Update, Begin..Commit/Rollback, Batch, View, Stats (and in a quarter of the processes a Close racing with everything) on a counter X, a list L and 8 registers; a seeded 30% of the write bodies return an error, panic or roll back; seeded delays at the verifYield points; every body bumps an in-writer gauge (must never exceed 1), reads X, writes X+1 and L+uid; snapshots assert X == len(L). Offline on the recorded history: committed bodies saw 0..n-1 exactly once, id order == commit order, distinct committed ids consecutive, real-time order, a reader's id determines the counter it sees, final state == serial replay with no effect of a failed body; the register history is checked for linearizability with porcupine (independent of ids). Run under the race detector (any report is a violation); lost wake-ups by a quiescence detector (all workers parked, no progress in successive snapshots). A round is non-trivial if operations overlapped in time; distinct_nontrivial counts distinct (goroutines, overlap, shared-batch, failure-mix) situations plus 1 per 1000 overlapping operation pairs (capped by rounds).",
		"samples":                       samples,
		"write_bodies":                  tot.Bodies,
		"committed_bodies":              tot.Committed,
		"failed_bodies_by_plan":         tot.Failed,
		"snapshot_reads":                tot.Reads,
		"distinct_committed_txids":      tot.TxIDs,
		"bodies_sharing_a_batch_tx":     tot.BatchShared,
		"porcupine_operations":          tot.PorcOps,
		"overlapping_operation_pairs":   tot.Overlaps,
		"stats_calls":                   tot.Stats,
		"bodies_rejected_by_size_limit": tot.SizeRejects,
		"max_bodies_in_writer":          tot.MaxInWriter,
		"yield_points_passed":           tot.Yields,
		"race_reports":                  races,
	}
	if tot.Overlaps == 0 {
		c.Inconclusive("no two operations overlapped in time")
	}
	return c.Finish("exploration", cov, []string{
		"schedules are those the Go scheduler plus seeded yields produced; a clean race-detector run shows no race on them only",
		"a wall-clock watchdog firing without the all-parked evidence is inconclusive, never a violation",
	})
}

func firstLines(s string, n int) string {
	l := strings.SplitN(s, "\n", n+1)
	if len(l) > n {
		l = l[:n]
	}
	return strings.Join(l, " | ")
}
