package drivers

import (
	"crypto/sha256"
	"encoding/json"
	"fmt"
	"os"
	"path/filepath"
	"runtime/debug"
	"strings"
	"time"

	bolt "go.etcd.io/bbolt"
	"go.etcd.io/bbolt/verifh/crash"
	"go.etcd.io/bbolt/verifh/decode"
	"go.etcd.io/bbolt/verifh/exec"
	"go.etcd.io/bbolt/verifh/gen"
	"go.etcd.io/bbolt/verifh/iotrace"
	"go.etcd.io/bbolt/verifh/model"
)

func init() {
	Drivers["C01"] = runC01
	ChildModes["c01"] = childC01
}

type c01Args struct {
	Progs  []string `json:"progs"`
	Dir    string   `json:"dir"`
	R      int      `json:"r"`
	ExhMax int      `json:"exh_max"`
	Cap    int      `json:"cap"`
	Seed   int64    `json:"seed"`
	Only   int      `json:"only"` // replay: judge only this image number (0 = all)
}

type c01Res struct {
	File      string         `json:"file"`
	Events    int            `json:"events"`
	Kinds     map[string]int `json:"event_kinds"`
	Windows   int            `json:"windows"`
	WinKinds  map[string]int `json:"window_kinds"`
	Images    int            `json:"images"`
	Dups      int            `json:"duplicate_images"`
	ByKind    map[string]int `json:"images_by_kind"`
	Outcome   map[string]int `json:"outcomes"` // (window kind, A|I)
	Fidelity  int            `json:"barriers_validated"`
	Mismatch  []string       `json:"fidelity_mismatch,omitempty"`
	Viol      []string       `json:"viol,omitempty"`
	ViolImage int            `json:"viol_image,omitempty"`
	Commits   int            `json:"commits"`
	WorkViol  string         `json:"workload_violation,omitempty"`
	Sample    string         `json:"sample,omitempty"`
}

func stateID(d []string) string {
	h := sha256.New()
	for _, l := range d {
		h.Write([]byte(l))
		h.Write([]byte{'\n'})
	}
	return fmt.Sprintf("%x", h.Sum(nil)[:8])
}

// judgeImage: recovery of one crash image must yield exactly the expected state.
func judgeImage(img []byte, path string, want []string, flType string) (problems []string) {
	bad := func(f string, a ...any) { problems = append(problems, fmt.Sprintf(f, a...)) }
	// 1. independent decoder (never mmaps)
	d := decode.Decode(img, decode.Options{})
	if len(d.Errors) > 0 {
		bad("D: %s", d.Errors[0])
	}
	if d.Content != nil {
		if diff := model.DiffDumps(want, exec.ModelDump(d.Content)); diff != "" {
			bad("D decodes a different content: %s", diff)
		}
	}
	// 2. the real code recovers from the image
	if err := os.WriteFile(path, img, 0600); err != nil {
		bad("harness: %v", err)
		return
	}
	defer os.Remove(path)
	func() {
		debug.SetPanicOnFault(true)
		defer func() {
			if x := recover(); x != nil {
				bad("recovery panicked: %v", x)
			}
		}()
		db, err := exec.Open(path, gen.OpenOpts{Freelist: flType})
		if err != nil {
			bad("open after crash: %v", err)
			return
		}
		closed := false
		defer func() {
			if !closed {
				_ = db.Close()
			}
		}()
		_ = db.View(func(tx *bolt.Tx) error {
			got, probs := exec.DumpTx(tx, false)
			for _, p := range probs {
				bad("read paths disagree: %s", p)
			}
			if diff := model.DiffDumps(want, got); diff != "" {
				bad("recovered content: %s", diff)
			}
			if errs := exec.CheckTx(tx); len(errs) > 0 {
				bad("integrity check after recovery: %s", errs[0])
			}
			return nil
		})
		if len(problems) > 0 {
			return
		}
		// accepts further transactions
		if err := db.Update(func(tx *bolt.Tx) error {
			b, err := tx.CreateBucketIfNotExists([]byte("zz-after-crash"))
			if err != nil {
				return err
			}
			return b.Put([]byte("k"), []byte("v"))
		}); err != nil {
			bad("write transaction after recovery: %v", err)
			return
		}
		closed = true
		if err := db.Close(); err != nil {
			bad("close after recovery: %v", err)
		}
		db2, err := exec.Open(path, gen.OpenOpts{Freelist: flType})
		if err != nil {
			bad("reopen after the follow-up transaction: %v", err)
			return
		}
		defer db2.Close()
		_ = db2.View(func(tx *bolt.Tx) error {
			b := tx.Bucket([]byte("zz-after-crash"))
			if b == nil || string(b.Get([]byte("k"))) != "v" {
				bad("the follow-up transaction is not there after reopen")
			}
			if errs := exec.CheckTx(tx); len(errs) > 0 {
				bad("integrity check after the follow-up transaction: %s", errs[0])
			}
			return nil
		})
	}()
	return
}

func c01Program(file string, a *c01Args) c01Res {
	res := c01Res{File: file, Kinds: map[string]int{}, ByKind: map[string]int{}, Outcome: map[string]int{}}
	p, err := loadProgram(file)
	if err != nil {
		res.WorkViol = "cannot load program"
		return res
	}
	path := filepath.Join(a.Dir, fmt.Sprintf("c01-%d.db", os.Getpid()))
	imgPath := path + ".img"
	os.Remove(path)
	defer os.Remove(path)
	tr := iotrace.New(path)
	tr.KeepData = true
	tr.BarrierHash = true
	tr.Install()
	states := map[string][]string{}
	reg := func(m *model.Bucket) string {
		d := exec.ModelDump(m)
		id := stateID(d)
		states[id] = d
		return id
	}
	var initial []byte
	flType := p.Steps[0].Opts.Freelist
	ps := 0
	r := exec.NewRunner(path, exec.Monitors{API: true, Dumps: true})
	r.AfterOpen = func(r *exec.Runner) {
		if initial == nil {
			// tracing starts at the first open-done (initialisation of a brand-new file is excluded by the project's documentation)
			tr.Reset()
			initial, _ = os.ReadFile(path)
			ps = r.DB.VerifPageSize()
		}
		tr.Marker("open-done", reg(r.Sim.Committed))
	}
	r.OnStep = func(r *exec.Runner, i int, s *gen.Step) {
		switch s.Op {
		case "commit":
			if r.Tx != nil && r.Tx.Writable() {
				tr.Marker("commit-begin", fmt.Sprintf("%s %s %d", reg(r.Sim.Committed), reg(r.Sim.Cur), r.Tx.ID()))
			}
		case "reopen":
			tr.Marker("open-begin", reg(r.Sim.Committed))
		}
	}
	r.AfterCommit = func(r *exec.Runner) { tr.Marker("commit-acked", reg(r.Sim.Committed)) }
	viol := r.Run(p)
	iotrace.Uninstall()
	res.Commits = r.Stats.Commits
	if len(viol) > 0 {
		res.WorkViol = viol[0].String()
		return res
	}
	events := tr.Snapshot()
	res.Events = len(events)
	for _, e := range events {
		res.Kinds[strings.SplitN(e.Op, ":", 2)[0]]++
	}
	b := crash.NewBuilder(initial, ps, a.Seed)
	b.R, b.ExhMax, b.CapPerWin = a.R, a.ExhMax, a.Cap
	var ctx crash.Ctx
	onMarker := func(e iotrace.Event) {
		switch e.Op {
		case "marker:open-done", "marker:commit-acked":
			ctx = crash.Ctx{A: e.Note}
		case "marker:open-begin":
			ctx = crash.Ctx{A: e.Note, I: e.Note}
		case "marker:commit-begin":
			var aID, iID string
			var txid uint64
			fmt.Sscanf(e.Note, "%s %s %d", &aID, &iID, &txid)
			ctx = crash.Ctx{A: aID, I: iID, InflTxid: txid}
		}
	}
	n := 0
	b.Replay(events, onMarker, func() crash.Ctx { return ctx }, func(im crash.Image) bool {
		n++
		if a.Only != 0 && n != a.Only {
			return true
		}
		ChildStart(fmt.Sprintf("%s#%d", filepath.Base(file), n))
		res.Images++
		res.ByKind[im.Kind]++
		// which state must recovery yield?
		want, which := im.Ctx.A, "A"
		if im.Ctx.I != "" && im.Ctx.InflTxid != 0 {
			m := decode.DecodeMeta(im.Data, int(im.Ctx.InflTxid%2)*ps, int(im.Ctx.InflTxid%2))
			if m.Valid && m.Txid == im.Ctx.InflTxid {
				want, which = im.Ctx.I, "I"
			}
		}
		res.Outcome[strings.SplitN(im.Kind, ":", 2)[0]+"->"+which]++
		probs := judgeImage(im.Data, imgPath, states[want], flType)
		ChildDone(fmt.Sprintf("%s#%d", filepath.Base(file), n), nil)
		if res.Sample == "" && which == "I" && strings.HasPrefix(im.Kind, "meta") {
			res.Sample = fmt.Sprintf("image %d of window %d (%s; %s): %d bytes, expected the in-flight state %s", n, im.Window, im.Kind, im.Desc, len(im.Data), want)
		}
		if len(probs) > 0 {
			res.Viol = append(res.Viol, fmt.Sprintf("crash image %d (window %d, %s: %s; expected state %s=%s): %s", n, im.Window, im.Kind, im.Desc, which, want, strings.Join(probs, "; ")))
			res.ViolImage = n
			return false
		}
		return true
	})
	res.Windows, res.WinKinds, res.Dups = b.Windows, b.WinKinds, b.Dups
	res.Fidelity, res.Mismatch = b.Fidelity, b.Mismatch
	return res
}

func childC01(argfile string) {
	var a c01Args
	ReadArgs(argfile, &a)
	for _, f := range a.Progs {
		res := c01Program(f, &a)
		ChildStart("prog:" + filepath.Base(f))
		ChildDone("prog:"+filepath.Base(f), res)
	}
}

func c01Programs(seed int64, perConfig int) []*gen.Program {
	var out []*gen.Program
	i := 0
	for _, ps := range []int{1024, 4096, 16384} {
		for _, fl := range backends {
			for _, nfs := range []bool{false, true} {
				for _, ngs := range []bool{false, true} {
					for k := 0; k < perConfig; k++ {
						cfg := gen.Config{
							Profile:   []string{"mixed", "buckets", "structural", "big", "overwrite", "bigkeys"}[i%6],
							PageSize:  ps,
							Txs:       5,
							OpsPerTx:  7,
							KeySpace:  50,
							Reopen:    0.2,
							Rollback:  0.15,
							NoBigKeys: true,
						}
						if cfg.Profile == "big" {
							cfg.Txs = 3
						}
						cfg.Opts = gen.OpenOpts{Freelist: fl, NoFreelistSync: nfs, NoGrowSync: ngs}
						cfg.NoBigKeys = cfg.Profile != "bigkeys"
						if i%4 == 2 {
							cfg.OptSched = sessionOpts // a later session may switch backend, freelist-sync and grow-sync
						}
						cfg.Managed = 0.3 // transactions through DB.Update, some of whose bodies fail or panic
						if i%3 == 1 && cfg.Profile != "big" {
							cfg.HeldReaders = 0.4 // open readers withhold pages during the traced history
						}
						out = append(out, gen.Generate(seed, i, cfg))
						i++
					}
				}
			}
		}
	}
	// histories with a freelist of several pages (a contiguous run is needed at every commit)
	for _, fl := range backends {
		for k := 0; k < perConfig/2+1; k++ {
			out = append(out, gen.GenerateBigFree(seed, i, 1024, gen.OpenOpts{Freelist: fl, NoGrowSync: k%2 == 1}))
			i++
		}
	}
	return out
}

func runC01(c *Ctx) int {
	args := c01Args{Dir: c.Tmp, R: c.Pick(6, 120), ExhMax: c.Pick(5, 9), Cap: c.Pick(60, 2000), Seed: c.Seed}
	if c.Replay != "" {
		var rp struct {
			Prog  *gen.Program `json:"prog"`
			Image int          `json:"image"`
			Args  c01Args      `json:"args"`
		}
		b, err := os.ReadFile(c.Replay)
		if err != nil || json.Unmarshal(b, &rp) != nil || rp.Prog == nil {
			fmt.Println("cannot load replay")
			return 2
		}
		f := filepath.Join(c.Tmp, "replay-prog.json")
		pb, _ := json.Marshal(rp.Prog)
		_ = os.WriteFile(f, pb, 0600)
		a := rp.Args
		a.Dir = c.Tmp
		a.Only = rp.Image
		res := c01Program(f, &a)
		for _, v := range res.Viol {
			fmt.Printf("VIOLATION property=C01 replay=%s\n  %s\n", c.Replay, v)
		}
		if len(res.Viol) > 0 {
			return 1
		}
		fmt.Println("replay: no violation")
		return 0
	}
	progs := c01Programs(c.Seed+600, c.Pick(4, 30))
	dir := filepath.Join(c.Tmp, "progs")
	_ = os.MkdirAll(dir, 0700)
	files := make([]string, len(progs))
	byFile := map[string]*gen.Program{}
	for i, p := range progs {
		files[i] = filepath.Join(dir, fmt.Sprintf("C01-%s-seed%d-case%d.json", p.Name, p.Seed, p.Case))
		b, _ := json.Marshal(p)
		_ = os.WriteFile(files[i], b, 0600)
		byFile[filepath.Base(files[i])] = p
	}
	results := make([][]c01Res, len(files))
	c.Parallel(len(files), func(i int) {
		a := args
		a.Progs = []string{files[i]}
		res := c.RunChild("c01", a, 20*time.Minute)
		for _, l := range res.Lines {
			var r c01Res
			if json.Unmarshal([]byte(l), &r) == nil && r.File != "" {
				results[i] = append(results[i], r)
			}
		}
		if unf := res.Unfinished(); len(unf) > 0 || res.ExitErr != nil {
			if res.TimedOut {
				c.Inconclusive("watchdog fired in " + filepath.Base(files[i]))
				return
			}
			// died while recovering from an image: that image is the witness
			img := 0
			if len(unf) > 0 {
				if k := strings.LastIndexByte(unf[0], '#'); k >= 0 {
					fmt.Sscan(unf[0][k+1:], &img)
				}
			}
			rp := c.SaveReplay(fmt.Sprintf("C01-case%d-image%d.json", progs[i].Case, img), map[string]any{"prog": progs[i], "image": img, "args": args})
			c.Report("crash:"+crashKind(res.Stderr), fmt.Sprintf("process died while recovering from crash image %d of %s: %s", img, filepath.Base(files[i]), tail(res.Stderr, 1200)), rp)
		}
	})
	tot := c01Res{Kinds: map[string]int{}, ByKind: map[string]int{}, Outcome: map[string]int{}, WinKinds: map[string]int{}}
	var samples []string
	nprog := 0
	for i, rs := range results {
		for _, r := range rs {
			nprog++
			if r.WorkViol != "" {
				c.Inconclusive("traced workload is not clean (belongs to C04): " + r.WorkViol)
				continue
			}
			tot.Events += r.Events
			tot.Windows += r.Windows
			tot.Images += r.Images
			tot.Dups += r.Dups
			tot.Fidelity += r.Fidelity
			tot.Commits += r.Commits
			for k, v := range r.Kinds {
				tot.Kinds[k] += v
			}
			for k, v := range r.ByKind {
				tot.ByKind[k] += v
			}
			for k, v := range r.Outcome {
				tot.Outcome[k] += v
			}
			for k, v := range r.WinKinds {
				tot.WinKinds[k] += v
			}
			if len(r.Mismatch) > 0 {
				c.Inconclusive("trace fidelity: " + r.Mismatch[0])
			}
			if r.Sample != "" && len(samples) < 3 {
				samples = append(samples, filepath.Base(r.File)+": "+r.Sample)
			}
			if len(r.Viol) > 0 {
				rp := c.SaveReplay(fmt.Sprintf("C01-case%d-image%d.json", progs[i].Case, r.ViolImage), map[string]any{"prog": progs[i], "image": r.ViolImage, "args": args})
				kind := "recovery"
				if strings.Contains(r.Viol[0], "expected state I") {
					kind = "recovery:in-flight"
				}
				c.Report(kind, filepath.Base(r.File)+": "+r.Viol[0], rp)
			}
		}
	}
	if len(samples) == 0 {
		samples = append(samples, progs[0].Summary())
	}
	cov := map[string]any{
		"evaluations":                   tot.Images,
		"distinct_nontrivial":           tot.Images - tot.ByKind["barrier"] - tot.ByKind["data:none"] - tot.ByKind["meta:none"],
		"rule":                          "for every traced program (page sizes 1024/4096/16384 x both backends x freelist-sync on/off x grow-sync on/off; puts/deletes, bucket create/delete/move, multi-page values, reopens) the I/O hook log (every write with its bytes, fdatasync, truncate, fsync) is replayed offline: durable image at the last completed sync + sector-granular subsets of the writes issued since. Per unsynced window: nothing, everything, each write alone, all but one, every prefix and suffix in issue order, a write cut inside after 1/half/all-but-one of its sectors, all subsets of whole writes for small windows, random sector subsets at densities 10/50/90 %; the meta-page window exhaustively over its sectors and torn at every field boundary of its 80 meaningful bytes in both directions; a pending truncate applied or not. Images are de-duplicated by SHA-256 (evaluations counts distinct images); every image is decoded by D and recovered by the real code (open, dump, Tx.Check, one more write transaction, reopen) and must equal the last acknowledged state, or the in-flight state iff its meta page is completely present. distinct_nontrivial = distinct images that contain at least one unsynced sector.",
		"samples":                       samples,
		"programs_traced":               nprog,
		"io_events_recorded":            tot.Events,
		"io_events_by_kind":             tot.Kinds,
		"commits_traced":                tot.Commits,
		"unsynced_windows":              tot.Windows,
		"windows_by_kind":               tot.WinKinds,
		"images_by_subset_kind":         tot.ByKind,
		"duplicate_images_skipped":      tot.Dups,
		"recovery_outcomes":             tot.Outcome,
		"traces_validated_against_impl": tot.Fidelity,
	}
	if tot.Fidelity == 0 {
		c.Inconclusive("the replayed durable image was never validated against the real file")
	}
	var sawI bool
	for k := range tot.Outcome {
		if strings.HasSuffix(k, "->I") {
			sawI = true
		}
	}
	if !sawI {
		c.Inconclusive("no image recovered to an in-flight state")
	}
	c.hookCompleteness(c.Pick(3, 32), cov)
	c.killRuns(c.Pick(48, 1500), cov)
	return c.Finish("fault_enumeration", cov, []string{
		"disk model: sector-atomic (512 B) writes, arbitrary reordering between barriers, fdatasync/fsync make everything issued before them durable including the file length needed to reach the data",
		"crashes are simulated from the recorded I/O trace (no device-mapper, no rr in this sandbox); the replayed durable image is validated byte-for-byte against the real file at every barrier",
		"NoSync mode and the initialisation of a brand-new file are excluded by the project's documentation",
	})
}
