package drivers

import (
	"encoding/json"
	"errors"
	"fmt"
	"math/rand"
	"os"
	"path/filepath"
	"runtime"
	"strings"
	"sync"
	"sync/atomic"
	"time"

	bolt "go.etcd.io/bbolt"
	"go.etcd.io/bbolt/verifh/exec"
	"go.etcd.io/bbolt/verifh/gen"
	"go.etcd.io/bbolt/verifh/iotrace"
)

func init() {
	Drivers["C16"] = runC16
	ChildModes["c16"] = childC16
}

type c16Args struct {
	Seed   int64  `json:"seed"`
	Rounds int    `json:"rounds"`
	Dir    string `json:"dir"`
	First  int    `json:"first"` // index of the first round (selects the configuration)
}

type c16Res struct {
	Round     int            `json:"round"`
	Config    string         `json:"config"`
	Callers   int            `json:"callers"`
	Calls     int            `json:"calls"`
	NilRet    int            `json:"nil_returns"`
	ErrRet    int            `json:"error_returns"`
	PanicRet  int            `json:"panic_returns"`
	Invoked   int            `json:"invocations"`
	MultiInv  int            `json:"calls_invoked_more_than_once"`
	Plans     map[string]int `json:"plans"`
	Viol      []string       `json:"viol,omitempty"`
	Hang      string         `json:"hang,omitempty"`
	MaxBatchN int            `json:"max_bodies_in_one_tx"`
}

type batchErr struct {
	call int64
}

func (e batchErr) Error() string { return fmt.Sprintf("planned failure of call %d", e.call) }

var c16Sizes = []int{0, 1, 2, 5, 1000}
var c16Delays = []time.Duration{0, time.Microsecond, time.Millisecond, 10 * time.Millisecond}
var c16Callers = []int{1, 2, 3, 5, 8, 16, 33, 64}

func childC16(argfile string) {
	var a c16Args
	ReadArgs(argfile, &a)
	for i := 0; i < a.Rounds; i++ {
		id := fmt.Sprintf("%d", a.First+i)
		ChildStart(id)
		ChildDone(id, c16Round(&a, a.First+i))
	}
}

func c16Round(a *c16Args, round int) (res c16Res) {
	res = c16Res{Round: round, Plans: map[string]int{}}
	size := c16Sizes[round%len(c16Sizes)]
	delay := c16Delays[(round/len(c16Sizes))%len(c16Delays)]
	ncall := c16Callers[(round/(len(c16Sizes)*len(c16Delays))+round)%len(c16Callers)]
	res.Config = fmt.Sprintf("MaxBatchSize=%d MaxBatchDelay=%v callers=%d", size, delay, ncall)
	res.Callers = ncall
	path := filepath.Join(a.Dir, fmt.Sprintf("c16-%d-%d.db", os.Getpid(), round))
	defer os.Remove(path)
	tr := iotrace.New(path)
	tr.EnableYields(a.Seed*37 + int64(round))
	defer iotrace.Uninstall()
	db, err := exec.Open(path, gen.OpenOpts{PageSize: 4096, Freelist: backends[round%2]})
	if err != nil {
		res.Viol = append(res.Viol, "open: "+err.Error())
		return
	}
	db.MaxBatchSize = size
	db.MaxBatchDelay = delay
	_ = db.Update(func(tx *bolt.Tx) error {
		_, _ = tx.CreateBucket([]byte("cnt"))
		_, _ = tx.CreateBucket([]byte("log"))
		return nil
	})
	var mu sync.Mutex
	fail := func(f string, x ...any) {
		mu.Lock()
		if len(res.Viol) < 10 {
			res.Viol = append(res.Viol, fmt.Sprintf(f, x...))
		}
		mu.Unlock()
	}
	type callRec struct {
		id      int64
		caller  int
		plan    string
		invoked int32
		ret     string // nil | err | panic
	}
	var calls []*callRec
	var callSeq, progress atomic.Int64
	var inTx, maxInTx int32
	var wg sync.WaitGroup
	per := 6
	stop := make(chan struct{})
	for ci := 0; ci < ncall; ci++ {
		wg.Add(1)
		go func(ci int) {
			defer wg.Done()
			r := rand.New(rand.NewSource(a.Seed*101 + int64(round)*997 + int64(ci)))
			for k := 0; k < per; k++ {
				select {
				case <-stop:
					return
				default:
				}
				plans := []string{"ok", "ok", "ok", "ok", "fail-first", "fail-later", "fail-always", "panic-first", "panic-always", "panic-later"}
				rec := &callRec{id: callSeq.Add(1), caller: ci, plan: plans[r.Intn(len(plans))]}
				mu.Lock()
				calls = append(calls, rec)
				mu.Unlock()
				fn := func(tx *bolt.Tx) error {
					n := atomic.AddInt32(&rec.invoked, 1)
					m := atomic.AddInt32(&inTx, 1)
					for {
						o := atomic.LoadInt32(&maxInTx)
						if m <= o || atomic.CompareAndSwapInt32(&maxInTx, o, m) {
							break
						}
					}
					defer atomic.AddInt32(&inTx, -1)
					// the non-idempotent effect: bump this caller's counter, log (call, invocation)
					cb := tx.Bucket([]byte("cnt"))
					key := []byte(fmt.Sprintf("c%03d", ci))
					if err := cb.Put(key, p64(u64(cb.Get(key))+1)); err != nil {
						return err
					}
					if err := tx.Bucket([]byte("log")).Put([]byte(fmt.Sprintf("%08d/%02d", rec.id, n)), p64(int64(tx.ID()))); err != nil {
						return err
					}
					bad := false
					switch rec.plan {
					case "fail-first", "panic-first":
						bad = n == 1
					case "fail-later", "panic-later":
						bad = n == 2
					case "fail-always", "panic-always":
						bad = true
					}
					if bad {
						if strings.HasPrefix(rec.plan, "panic") {
							panic(batchErr{rec.id})
						}
						return batchErr{rec.id}
					}
					return nil
				}
				func() {
					defer func() {
						if x := recover(); x != nil {
							rec.ret = "panic"
							if be, ok := x.(batchErr); !ok || be.call != rec.id {
								fail("call %d (caller %d, plan %s) received a panic that is not its own: %v", rec.id, ci, rec.plan, x)
							}
						}
					}()
					err := db.Batch(fn)
					switch {
					case err == nil:
						rec.ret = "nil"
					default:
						rec.ret = "err"
						var be batchErr
						if !errors.As(err, &be) {
							// a panic inside a batch is handed back as an error value by bbolt (type panicked)
							if !strings.Contains(err.Error(), fmt.Sprintf("planned failure of call %d", rec.id)) {
								fail("call %d (caller %d, plan %s) got a foreign error: %v", rec.id, ci, rec.plan, err)
							}
						} else if be.call != rec.id {
							fail("call %d (caller %d, plan %s) got the error of call %d", rec.id, ci, rec.plan, be.call)
						}
					}
				}()
				progress.Add(1)
				if r.Intn(3) == 0 {
					runtime.Gosched()
				}
			}
		}(ci)
	}
	done := make(chan struct{})
	go func() { wg.Wait(); close(done) }()
	last, still := int64(-1), 0
wait:
	for {
		select {
		case <-done:
			break wait
		case <-time.After(3 * time.Second):
			p := progress.Load()
			if p == last {
				still++
			} else {
				still = 0
			}
			last = p
			if still >= 4 {
				buf := make([]byte, 1<<20)
				n := runtime.Stack(buf, true)
				st := string(buf[:n])
				if parkedIn(st, "drivers.c16Round.func") {
					res.Hang = st
					if len(res.Hang) > 8000 {
						res.Hang = res.Hang[:8000]
					}
					res.Viol = append(res.Viol, "a Batch caller never returns: every caller goroutine is parked and none has completed a call in successive snapshots")
					close(stop)
					return
				}
			}
		}
	}
	// final accounting
	perCaller := map[int]int64{}
	want := map[int64]*callRec{}
	for _, rec := range calls {
		res.Calls++
		res.Plans[rec.plan]++
		res.Invoked += int(rec.invoked)
		if rec.invoked > 1 {
			res.MultiInv++
		}
		switch rec.ret {
		case "nil":
			res.NilRet++
			perCaller[rec.caller]++
		case "err":
			res.ErrRet++
		case "panic":
			res.PanicRet++
		default:
			fail("call %d has no outcome", rec.id)
		}
		want[rec.id] = rec
		// a call whose last invocation was scripted to fail cannot have returned nil and vice versa
		if rec.ret == "nil" && (rec.plan == "fail-always" || rec.plan == "panic-always") {
			fail("call %d with plan %s returned nil", rec.id, rec.plan)
		}
		if rec.ret != "nil" && rec.plan == "ok" {
			fail("call %d whose function never fails returned %s (another caller's failure was reported to it)", rec.id, rec.ret)
		}
	}
	_ = db.View(func(tx *bolt.Tx) error {
		cb := tx.Bucket([]byte("cnt"))
		for ci := 0; ci < ncall; ci++ {
			got := u64(cb.Get([]byte(fmt.Sprintf("c%03d", ci))))
			if got != perCaller[ci] {
				fail("caller %d: its counter in the database is %d, but %d of its Batch calls returned nil (%s)", ci, got, perCaller[ci], res.Config)
			}
		}
		seen := map[int64]int{}
		perTx := map[int64]int{}
		_ = tx.Bucket([]byte("log")).ForEach(func(k, v []byte) error {
			var id int64
			var inv int
			fmt.Sscanf(string(k), "%d/%d", &id, &inv)
			seen[id]++
			perTx[u64(v)]++
			if perTx[u64(v)] > res.MaxBatchN {
				res.MaxBatchN = perTx[u64(v)]
			}
			return nil
		})
		for id, rec := range want {
			n := seen[id]
			if rec.ret == "nil" && n != 1 {
				fail("call %d returned nil but its effect is committed %d times", id, n)
			}
			if rec.ret != "nil" && n != 0 {
				fail("call %d returned %s but its effect is committed %d times", id, rec.ret, n)
			}
		}
		for _, e := range exec.CheckTx(tx) {
			fail("Tx.Check: %s", e)
			break
		}
		return nil
	})
	_ = db.Close()
	return
}

// parkedIn: every goroutine whose stack mentions marker is in a lock/channel wait.
func parkedIn(stacks, marker string) bool {
	for _, g := range strings.Split(stacks, "\n\n") {
		if !strings.Contains(g, marker) || strings.Contains(g, "runtime.Stack") {
			continue
		}
		first := g
		if i := strings.IndexByte(g, '\n'); i >= 0 {
			first = g[:i]
		}
		if !(strings.Contains(first, "sync.Mutex.Lock") || strings.Contains(first, "semacquire") || strings.Contains(first, "chan receive") || strings.Contains(first, "sync.RWMutex") || strings.Contains(first, "select") || strings.Contains(first, "sync.WaitGroup")) {
			return false
		}
	}
	return true
}

func runC16(c *Ctx) int {
	if c.Replay != "" {
		fmt.Println("C16 replay files hold the round configuration and outcome; schedules are not replayable - re-run ./check C16 with the same VERIF_SEED")
		return 2
	}
	if bin := os.Getenv("VCHECK_RACE"); bin != "" {
		c.ChildBin = bin
	} else {
		c.Inconclusive("race-detector build not available")
	}
	total := c.Pick(320, 30000)
	per := c.Pick(20, 300)
	nchild := (total + per - 1) / per
	outs := make([][]c16Res, nchild)
	races := 0
	raceText := ""
	var rmu sync.Mutex
	c.Parallel(nchild, func(i int) {
		logp := filepath.Join(c.Tmp, fmt.Sprintf("race-c16-%d", i))
		a := c16Args{Seed: c.Seed*777 + int64(i), Rounds: per, Dir: c.Tmp, First: i * per}
		res := c.RunChild("c16", a, 30*time.Minute, "GORACE=halt_on_error=0 log_path="+logp)
		for _, l := range res.Lines {
			var r c16Res
			if json.Unmarshal([]byte(l), &r) == nil {
				outs[i] = append(outs[i], r)
			}
		}
		n, first := raceReports(logp)
		rmu.Lock()
		races += n
		if raceText == "" {
			raceText = first
		}
		rmu.Unlock()
		if unf := res.Unfinished(); len(unf) > 0 {
			if res.TimedOut {
				c.Inconclusive("watchdog fired in a batch round without quiescence evidence")
			} else {
				rp := c.SaveReplay(fmt.Sprintf("c16-crash-%d.json", i), map[string]any{"args": a, "round": unf[0], "stderr": res.Stderr})
				c.Report("crash:"+crashKind(res.Stderr), "process died in batch round "+unf[0]+": "+tail(res.Stderr, 1500), rp)
			}
		}
	})
	c.ChildBin = ""
	tot := c16Res{Plans: map[string]int{}}
	rounds := 0
	configs := map[string]bool{}
	var samples []string
	for i, rs := range outs {
		for _, r := range rs {
			rounds++
			tot.Calls += r.Calls
			tot.NilRet += r.NilRet
			tot.ErrRet += r.ErrRet
			tot.PanicRet += r.PanicRet
			tot.Invoked += r.Invoked
			tot.MultiInv += r.MultiInv
			if r.MaxBatchN > tot.MaxBatchN {
				tot.MaxBatchN = r.MaxBatchN
			}
			for k, v := range r.Plans {
				tot.Plans[k] += v
			}
			if r.MultiInv > 0 {
				configs[r.Config] = true
			}
			if len(samples) < 3 && r.MultiInv > 0 {
				samples = append(samples, fmt.Sprintf("%s: %d calls (plans %v): %d returned nil, %d an error, %d by panic; %d function invocations, %d calls invoked more than once", r.Config, r.Calls, r.Plans, r.NilRet, r.ErrRet, r.PanicRet, r.Invoked, r.MultiInv))
			}
			if len(r.Viol) > 0 {
				rp := c.SaveReplay(fmt.Sprintf("c16-%d-round%d.json", i, r.Round), r)
				kind := "exactly-once"
				switch {
				case strings.Contains(r.Viol[0], "never returns"):
					kind = "hang"
				case strings.Contains(r.Viol[0], "foreign") || strings.Contains(r.Viol[0], "not its own") || strings.Contains(r.Viol[0], "another caller"):
					kind = "foreign-failure"
				}
				c.Report(kind, r.Config+": "+r.Viol[0], rp)
			}
		}
	}
	if races > 0 {
		rp := c.SaveReplay("race-report.json", map[string]any{"reports": races, "first": raceText})
		c.Report("race", fmt.Sprintf("%d data race report(s): %s", races, firstLines(raceText, 12)), rp)
	}
	if len(samples) == 0 {
		samples = []string{"(no round had a call invoked more than once)"}
	}
	cov := map[string]any{
		"evaluations":                      rounds,
		"distinct_nontrivial":              len(configs),
		"rule":                             "rounds over MaxBatchSize {0,1,2,5,1000} x MaxBatchDelay {0,1us,1ms,10ms} x callers {1,2,3,5,8,16,33,64}, 6 Batch calls per caller; every function bumps its caller's counter stored in the database and logs (call, invocation) - both non-idempotent - and is scripted (seeded) to succeed, or to fail/panic on its first, its second or every invocation; errors and panics carry the call id. After all callers returned: per caller the stored counter must equal the number of its calls that returned nil, a call that returned nil is logged exactly once, one that returned an error or panicked not at all, no caller may receive another call's error/panic, an 'ok' call must return nil. Race detector on, seeded yields in batch.run/Batch; a hang is decided by all callers being parked. distinct_nontrivial = distinct (size, delay, callers) configurations in which at least one call was invoked more than once (i.e. a retry really happened).",
		"samples":                          samples,
		"batch_calls":                      tot.Calls,
		"returned_nil":                     tot.NilRet,
		"returned_error":                   tot.ErrRet,
		"returned_by_panic":                tot.PanicRet,
		"function_invocations":             tot.Invoked,
		"calls_invoked_more_than_once":     tot.MultiInv,
		"calls_by_plan":                    tot.Plans,
		"max_functions_in_one_transaction": tot.MaxBatchN,
		"race_reports":                     races,
	}
	if tot.MultiInv == 0 {
		c.Inconclusive("no Batch call was ever retried")
	}
	return c.Finish("exploration", cov, []string{
		"Batch functions may be invoked several times by design; only the committed effect is judged",
		"schedules are those the scheduler and the seeded yields produced",
	})
}
