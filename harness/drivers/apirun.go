package drivers

import (
	"crypto/sha256"
	"encoding/json"
	"fmt"
	"os"
	"path/filepath"
	"sort"
	"strings"
	"time"

	bolt "go.etcd.io/bbolt"
	"go.etcd.io/bbolt/verifh/exec"
	"go.etcd.io/bbolt/verifh/gen"
	"go.etcd.io/bbolt/verifh/iotrace"
)

// apiArgs is the argument file of the "api" child mode.
type apiArgs struct {
	Progs        []string      `json:"progs"` // program files
	Mon          exec.Monitors `json:"mon"`
	Dir          string        `json:"dir"` // scratch directory for database files
	CursorBudget int64         `json:"cursor_budget"`
}

// apiCase is the result of one program.
type apiCase struct {
	ID    string           `json:"id"`
	File  string           `json:"file"`
	Viol  []exec.Violation `json:"viol,omitempty"`
	Stats exec.RunStats    `json:"stats"`
	FP    string           `json:"fp"`
	Crash string           `json:"crash,omitempty"`
}

func init() {
	ChildModes["api"] = childAPI
}

func loadProgram(path string) (*gen.Program, error) {
	b, err := os.ReadFile(path)
	if err != nil {
		return nil, err
	}
	var p gen.Program
	if err := json.Unmarshal(b, &p); err != nil {
		return nil, err
	}
	return &p, nil
}

func childAPI(argfile string) {
	var a apiArgs
	ReadArgs(argfile, &a)
	bolt.SetVerifHooks(&bolt.VerifHooks{CursorBudget: a.CursorBudget})
	for i, f := range a.Progs {
		id := fmt.Sprintf("%d", i)
		ChildStart(id)
		p, err := loadProgram(f)
		if err != nil {
			fmt.Fprintln(os.Stderr, "child: load program:", err)
			os.Exit(3)
		}
		dbPath := filepath.Join(a.Dir, fmt.Sprintf("db-%d-%d", os.Getpid(), i))
		r := exec.NewRunner(dbPath, a.Mon)
		// the tracer serves commits with one injected I/O failure ("fail:k" steps); it also carries the cursor budget
		tr := iotrace.New(dbPath)
		tr.CursorLimit = a.CursorBudget
		tr.Install()
		r.Tracer = tr
		r.AfterOpen = func(r *exec.Runner) { tr.MetaLimit = int64(2 * r.DB.VerifPageSize()) }
		viol := r.Run(p)
		bolt.SetVerifHooks(&bolt.VerifHooks{CursorBudget: a.CursorBudget})
		os.Remove(dbPath)
		st := r.Stats
		st.LastDecode = nil
		ChildDone(id, apiCase{ID: id, File: f, Viol: viol, Stats: st, FP: fingerprint(&st, p)})
	}
}

func capInt(v, c int) int {
	if v > c {
		return c
	}
	return v
}

// fingerprint: which structural transitions a program drove (counts capped),
// shape of the run. Two programs with equal fingerprints count once in
// distinct_nontrivial.
func fingerprint(st *exec.RunStats, p *gen.Program) string {
	var parts []string
	for _, k := range SortedKeys(st.Transitions) {
		parts = append(parts, fmt.Sprintf("%s=%d", k, capInt(st.Transitions[k], 3)))
	}
	parts = append(parts, fmt.Sprintf("depth=%d c=%d rb=%d ro=%d split=%d reb=%d ov=%v in=%v",
		st.MaxDepth, capInt(st.Commits, 6), capInt(st.Rollbacks, 3), capInt(st.Reopens, 3),
		capInt(int(st.Splits), 4), capInt(int(st.Rebalances), 4), st.OverflowSeen, st.InlineSeen))
	if len(p.Steps) > 0 && p.Steps[0].Opts != nil {
		parts = append(parts, fmt.Sprintf("ps=%d fl=%s", p.Steps[0].Opts.PageSize, p.Steps[0].Opts.Freelist))
	}
	return strings.Join(parts, " ")
}

// apiBatchResult aggregates.
type apiAgg struct {
	Cases       int
	FPs         map[string]int
	Transitions map[string]int // number of programs that drove each transition
	Steps       int
	APIChecks   int
	CursorCalls int
	DumpChecks  int
	FileDecodes int
	TxChecks    int
	Commits     int
	Rollbacks   int
	Reopens     int
	ErrProbes   int
	Backups     int
	Samples     []string
	NonTrivial  map[string]bool
	DepthByPS   map[string]int // "ps=<page size> depth=<d>" -> programs
}

func newAgg() *apiAgg {
	return &apiAgg{FPs: map[string]int{}, Transitions: map[string]int{}, NonTrivial: map[string]bool{}, DepthByPS: map[string]int{}}
}

func (a *apiAgg) add(cs *apiCase, p *gen.Program, nontrivial bool) {
	a.Cases++
	a.FPs[cs.FP]++
	st := &cs.Stats
	for k := range st.Transitions {
		a.Transitions[k]++
	}
	if st.Splits > 0 {
		a.Transitions["split"]++
	}
	if st.Rebalances > 0 {
		a.Transitions["rebalance"]++
	}
	if len(p.Steps) > 0 && p.Steps[0].Opts != nil {
		a.DepthByPS[fmt.Sprintf("ps=%d depth=%d", p.Steps[0].Opts.PageSize, st.MaxDepth)]++
	}
	a.Steps += st.Steps
	a.APIChecks += st.APIChecks
	a.CursorCalls += st.CursorCalls
	a.DumpChecks += st.DumpChecks
	a.FileDecodes += st.FileDecodes
	a.TxChecks += st.TxChecks
	a.Commits += st.Commits
	a.Rollbacks += st.Rollbacks
	a.Reopens += st.Reopens
	a.ErrProbes += st.ErrProbes
	a.Backups += st.Backups
	if nontrivial {
		a.NonTrivial[cs.FP] = true
	}
	if len(a.Samples) < 3 {
		a.Samples = append(a.Samples, p.Summary())
	}
}

func (a *apiAgg) coverage(rule string) map[string]any {
	return map[string]any{
		"evaluations":              a.Cases,
		"distinct_nontrivial":      len(a.NonTrivial),
		"rule":                     rule,
		"samples":                  a.Samples,
		"program_steps":            a.Steps,
		"api_results_compared":     a.APIChecks,
		"cursor_calls_compared":    a.CursorCalls,
		"full_dumps_compared":      a.DumpChecks,
		"file_images_decoded_by_D": a.FileDecodes,
		"tx_check_runs":            a.TxChecks,
		"commits":                  a.Commits,
		"rollbacks":                a.Rollbacks,
		"reopens":                  a.Reopens,
		"error_probes":             a.ErrProbes,
		"backups_decoded_by_D":     a.Backups,
		"programs_per_transition":  a.Transitions,
		"programs_by_page_size_and_max_tree_depth": a.DepthByPS,
		"distinct_fingerprints_all":                len(a.FPs),
	}
}

// runPrograms executes the programs in child processes (batch per child) and
// reports violations. It returns the aggregate.
func (c *Ctx) runPrograms(progs []*gen.Program, mon exec.Monitors, batch int, budget int64, nontrivial func(cs *apiCase) bool, classify func(v exec.Violation) string) *apiAgg {
	agg := newAgg()
	dir := filepath.Join(c.Tmp, "progs")
	_ = os.MkdirAll(dir, 0700)
	files := make([]string, len(progs))
	for i, p := range progs {
		files[i] = filepath.Join(dir, fmt.Sprintf("%s-%s-seed%d-case%d.json", c.Prop, p.Name, p.Seed, p.Case))
		b, _ := json.Marshal(p)
		_ = os.WriteFile(files[i], b, 0600)
	}
	nb := (len(progs) + batch - 1) / batch
	type out struct {
		cases []apiCase
	}
	results := make([]out, nb)
	c.Parallel(nb, func(bi int) {
		lo, hi := bi*batch, (bi+1)*batch
		if hi > len(progs) {
			hi = len(progs)
		}
		remaining := files[lo:hi]
		base := lo
		for attempt := 0; len(remaining) > 0 && attempt < 200; attempt++ {
			res := c.RunChild("api", apiArgs{Progs: remaining, Mon: mon, Dir: c.Tmp, CursorBudget: budget}, time.Duration(60+20*len(remaining))*time.Second)
			for _, l := range res.Lines {
				var cs apiCase
				if json.Unmarshal([]byte(l), &cs) == nil {
					results[bi].cases = append(results[bi].cases, cs)
				}
			}
			unf := res.Unfinished()
			if res.ExitErr == nil && len(unf) == 0 {
				break
			}
			// the child died inside a case: that case is a witness; continue with the rest
			idx := len(res.Finished)
			if len(unf) > 0 {
				fmt.Sscan(unf[0], &idx)
			}
			if idx >= len(remaining) {
				c.Inconclusive(fmt.Sprintf("child failed outside a case: %v %s", res.ExitErr, tail(res.Stderr, 300)))
				break
			}
			f := remaining[idx]
			if res.TimedOut {
				// wall-clock watchdog without other evidence: inconclusive, never a violation
				c.Inconclusive(fmt.Sprintf("watchdog fired in %s", filepath.Base(f)))
			} else {
				results[bi].cases = append(results[bi].cases, apiCase{File: f, Crash: fmt.Sprintf("%v\n%s", res.ExitErr, res.Stderr)})
			}
			remaining = remaining[idx+1:]
			base += idx + 1
		}
		_ = base
	})
	byFile := map[string]*gen.Program{}
	for i, f := range files {
		byFile[f] = progs[i]
	}
	for _, o := range results {
		for i := range o.cases {
			cs := &o.cases[i]
			p := byFile[cs.File]
			if cs.Crash != "" {
				rp := c.keepReplay(cs.File)
				c.Report("crash:"+crashKind(cs.Crash), "process under test died: "+tail(cs.Crash, 1500), rp)
				continue
			}
			agg.add(cs, p, nontrivial(cs))
			if cs.Stats.Transcript != "" && len(cs.Viol) == 0 {
				c.transcripts = append(c.transcripts, transcriptRec{base: fmt.Sprintf("seed%d-case%d", p.Seed, p.Case), hash: cs.Stats.Transcript, file: filepath.Base(cs.File)})
			}
			if len(cs.Viol) > 0 {
				rp := c.keepReplay(cs.File)
				v := cs.Viol[0]
				kind := v.Kind
				if classify != nil {
					kind = classify(v)
				}
				c.Report(kind, fmt.Sprintf("%s: %s", filepath.Base(cs.File), v.String()), rp)
			}
		}
	}
	return agg
}

func crashKind(s string) string {
	switch {
	case strings.Contains(s, "cursor step budget"):
		return "cursor-hang"
	case strings.Contains(s, "checkptr"):
		return "checkptr"
	case strings.Contains(s, "AddressSanitizer"):
		return "asan"
	case strings.Contains(s, "DATA RACE"):
		return "race"
	case strings.Contains(s, "SIGSEGV") || strings.Contains(s, "SIGBUS"):
		return "fault"
	case strings.Contains(s, "all goroutines are asleep"):
		return "deadlock"
	case strings.Contains(s, "assertion failed"):
		return "assertion"
	}
	return "died"
}

// tail returns an excerpt of a long process output: its beginning (where a Go
// panic message or sanitizer report starts) and its end.
func tail(s string, n int) string {
	if len(s) <= n {
		return s
	}
	h := n * 2 / 3
	return s[:h] + " … " + s[len(s)-(n-h):]
}

// keepReplay copies a pending program into /verif/replays/<prop>/.
func (c *Ctx) keepReplay(file string) string {
	b, err := os.ReadFile(file)
	if err != nil {
		return file
	}
	dst := filepath.Join(c.ReplayDir(), filepath.Base(file))
	_ = os.WriteFile(dst, b, 0644)
	return dst
}

// replayAPI runs one saved program in-process and prints what happens.
func (c *Ctx) replayAPI(mon exec.Monitors, budget int64) int {
	p, err := loadProgram(c.Replay)
	if err != nil {
		fmt.Println("cannot load replay:", err)
		return 2
	}
	bolt.SetVerifHooks(&bolt.VerifHooks{CursorBudget: budget})
	r := exec.NewRunner(filepath.Join(c.Tmp, "replay-db"), mon)
	viol := r.Run(p)
	for _, v := range viol {
		fmt.Printf("VIOLATION property=%s replay=%s\n  %s\n", c.Prop, c.Replay, v.String())
	}
	if len(viol) > 0 {
		return 1
	}
	fmt.Println("replay: no violation")
	return 0
}

func hashStrings(ss []string) string {
	h := sha256.New()
	sort.Strings(ss)
	for _, s := range ss {
		h.Write([]byte(s))
		h.Write([]byte{0})
	}
	return fmt.Sprintf("%x", h.Sum(nil)[:8])
}
