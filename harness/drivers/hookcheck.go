package drivers

import (
	"bufio"
	"encoding/json"
	"fmt"
	"os"
	"path/filepath"
	"regexp"
	"strconv"
	"strings"
	"time"

	"go.etcd.io/bbolt/verifh/exec"
	"go.etcd.io/bbolt/verifh/gen"
	"go.etcd.io/bbolt/verifh/iotrace"
)

// Hook completeness monitor. The monitors of C01, C06 and C08 see the
// database's I/O only through the `verif` hooks. A write path that bypasses
// the hooked call sites would blind them. This monitor runs generated
// programs in a child process under strace and requires that the sequence
// of (pwrite64 offset/length, fdatasync, ftruncate size, fsync) system calls
// on descriptors of the data file equals the hook log, and that no other
// write-type system call (write, pwritev, fallocate) touches the file.

func init() { ChildModes["hooktrace"] = childHookTrace }

type hookTraceArgs struct {
	Prog string `json:"prog"`
	DB   string `json:"db"`
	Out  string `json:"out"`
}

type hookEv struct {
	Op   string `json:"op"`
	Off  int64  `json:"off"`
	Size int64  `json:"size"`
}

func childHookTrace(argfile string) {
	var a hookTraceArgs
	ReadArgs(argfile, &a)
	p, err := loadProgram(a.Prog)
	if err != nil {
		fmt.Fprintln(os.Stderr, err)
		os.Exit(3)
	}
	tr := iotrace.New(a.DB)
	r := exec.NewRunner(a.DB, exec.Monitors{})
	viol := r.Run(p)
	iotrace.Uninstall()
	var evs []hookEv
	for _, e := range tr.Snapshot() {
		if e.Err != "" {
			continue
		}
		switch e.Op {
		case "write", "fdatasync", "truncate", "fsync":
			evs = append(evs, hookEv{e.Op, e.Off, e.Size})
		}
	}
	out := map[string]any{"events": evs}
	if len(viol) > 0 {
		out["viol"] = viol[0].String()
	}
	b, _ := json.Marshal(out)
	_ = os.WriteFile(a.Out, b, 0600)
}

var straceCall = regexp.MustCompile(`^\d+\s+(openat|close|pwrite64|pwritev|pwritev2|write|fdatasync|fsync|ftruncate|fallocate)\((.*)$`)
var straceResumed = regexp.MustCompile(`^\d+\s+<\.\.\. (openat) resumed>.*= (\d+)`)

// parseStraceIO extracts the I/O sequence on descriptors of dbPath.
func parseStraceIO(log, dbPath string) (evs []hookEv, foreign []string) {
	f, err := os.Open(log)
	if err != nil {
		return nil, []string{"cannot read strace log"}
	}
	defer f.Close()
	fds := map[int]bool{}
	pendingOpen := false
	sc := bufio.NewScanner(f)
	sc.Buffer(make([]byte, 1<<20), 1<<28)
	for sc.Scan() {
		line := sc.Text()
		if pendingOpen {
			if m := straceResumed.FindStringSubmatch(line); m != nil {
				fd, _ := strconv.Atoi(m[2])
				fds[fd] = true
				pendingOpen = false
				continue
			}
		}
		m := straceCall.FindStringSubmatch(line)
		if m == nil {
			continue
		}
		call, rest := m[1], m[2]
		firstArg := func() (int, bool) {
			// leading integer; the rest may be ", ...", ")" or " <unfinished ...>"
			a := strings.TrimSpace(rest)
			n := 0
			for n < len(a) && a[n] >= '0' && a[n] <= '9' {
				n++
			}
			fd, err := strconv.Atoi(a[:n])
			return fd, err == nil
		}
		switch call {
		case "openat":
			isDB := strings.Contains(rest, `"`+dbPath+`"`)
			if i := strings.LastIndex(rest, "= "); i >= 0 && !strings.Contains(rest, "<unfinished") {
				fd, err := strconv.Atoi(strings.TrimSpace(rest[i+2:]))
				if err == nil && fd >= 0 {
					if isDB {
						fds[fd] = true
					} else {
						delete(fds, fd)
					}
				}
			} else if isDB {
				pendingOpen = true
			}
		case "close":
			if fd, ok := firstArg(); ok {
				delete(fds, fd)
			}
		default:
			fd, ok := firstArg()
			if !ok || !fds[fd] {
				continue
			}
			switch call {
			case "pwrite64":
				// pwrite64(fd, "..."..., len, off) = n
				body := rest
				if i := strings.LastIndex(body, ") ="); i >= 0 {
					body = body[:i]
				} else if i := strings.Index(body, " <unfinished"); i >= 0 {
					body = strings.TrimSuffix(body[:i], ")")
				}
				parts := strings.Split(body, ", ")
				if len(parts) >= 4 {
					n, e1 := strconv.ParseInt(strings.TrimSpace(parts[len(parts)-2]), 10, 64)
					off, e2 := strconv.ParseInt(strings.TrimSpace(parts[len(parts)-1]), 10, 64)
					if e1 == nil && e2 == nil {
						evs = append(evs, hookEv{"write", off, n})
						continue
					}
				}
				foreign = append(foreign, "unparsed: "+line)
			case "fdatasync":
				evs = append(evs, hookEv{"fdatasync", 0, 0})
			case "fsync":
				evs = append(evs, hookEv{"fsync", 0, 0})
			case "ftruncate":
				body := rest
				if i := strings.Index(body, " <unfinished"); i >= 0 {
					body = body[:i]
				}
				if i := strings.Index(body, ")"); i >= 0 {
					body = body[:i]
				}
				parts := strings.Split(body, ", ")
				var sz int64
				if len(parts) >= 2 {
					sz, _ = strconv.ParseInt(strings.TrimSpace(parts[1]), 10, 64)
				}
				evs = append(evs, hookEv{"truncate", 0, sz})
			default:
				foreign = append(foreign, call+"("+rest)
			}
		}
	}
	return
}

// hookCompleteness runs n generated programs under strace and compares the two logs.
func (c *Ctx) hookCompleteness(n int, cov map[string]any) {
	if _, err := os.Stat("/usr/bin/strace"); err != nil {
		cov["hook_completeness"] = "strace not available"
		return
	}
	self, _ := os.Executable()
	progs := apiPrograms(c.Seed+900, n, []string{"mixed", "big", "buckets", "structural"}, func(i int, cfg *gen.Config) {
		cfg.Reopen = 0.3
		cfg.ROProbe = 0
		cfg.Txs = 8
		cfg.Opts.NoGrowSync = i%4 == 3
		cfg.Opts.NoFreelistSync = i%3 == 2
	})
	type out struct {
		compared, events int
		problem          string
		sample           string
	}
	res := make([]out, len(progs))
	var attempt func(i int)
	attempt = func(i int) {
		dir := filepath.Join(c.Tmp, fmt.Sprintf("hook-%d", i))
		_ = os.MkdirAll(dir, 0700)
		defer os.RemoveAll(dir)
		pf := filepath.Join(dir, "prog.json")
		b, _ := json.Marshal(progs[i])
		_ = os.WriteFile(pf, b, 0600)
		db := filepath.Join(dir, "traced.db")
		outf := filepath.Join(dir, "hook.json")
		af := filepath.Join(dir, "args.json")
		ab, _ := json.Marshal(hookTraceArgs{Prog: pf, DB: db, Out: outf})
		_ = os.WriteFile(af, ab, 0600)
		log := filepath.Join(dir, "strace.txt")
		_, _, terr := runCLI("strace", 10*time.Minute, "-f", "-o", log, "-e", "trace=openat,close,pwrite64,pwritev,pwritev2,write,fdatasync,fsync,ftruncate,fallocate", self, "child", "hooktrace", af)
		if terr != nil {
			res[i].problem = "inconclusive: " + terr.Error()
			return
		}
		hb, err := os.ReadFile(outf)
		if err != nil {
			res[i].problem = "inconclusive: traced child produced no hook log"
			return
		}
		var h struct {
			Events []hookEv `json:"events"`
			Viol   string   `json:"viol"`
		}
		_ = json.Unmarshal(hb, &h)
		sys, foreign := parseStraceIO(log, db)
		res[i].events = len(h.Events)
		if len(foreign) > 0 {
			res[i].problem = "a system call on the data file that the hooks do not cover: " + foreign[0]
			return
		}
		if len(sys) != len(h.Events) {
			res[i].problem = fmt.Sprintf("strace saw %d I/O calls on the data file, the hooks %d", len(sys), len(h.Events))
		}
		for k := 0; k < len(sys) && k < len(h.Events); k++ {
			if sys[k] != h.Events[k] {
				res[i].problem = fmt.Sprintf("event %d differs: strace %+v, hook %+v", k, sys[k], h.Events[k])
				break
			}
		}
		if res[i].problem == "" {
			res[i].compared = 1
			if len(sys) > 3 {
				res[i].sample = fmt.Sprintf("%s: %d I/O calls agree, e.g. %+v %+v %+v", progs[i].Name, len(sys), sys[0], sys[len(sys)/2], sys[len(sys)-1])
			}
		}
	}
	c.Parallel(len(progs), func(i int) {
		attempt(i)
		if res[i].problem != "" {
			// a real blind spot repeats; an artefact of reading a heavily interleaved strace log does not
			first := res[i].problem
			res[i] = out{}
			attempt(i)
			if res[i].problem != "" && !strings.HasPrefix(res[i].problem, "inconclusive") {
				res[i].problem += " (first attempt: " + first + ")"
			}
		}
	})
	compared, events := 0, 0
	var sample string
	for i, r := range res {
		compared += r.compared
		events += r.events
		if r.sample != "" && sample == "" {
			sample = r.sample
		}
		if strings.HasPrefix(r.problem, "inconclusive") {
			c.Inconclusive("hook completeness: " + r.problem)
		} else if r.problem != "" {
			rp := c.SaveReplay(fmt.Sprintf("hook-completeness-%d.json", i), progs[i])
			c.Report("hook-incomplete", "the verif hooks do not see all I/O on the data file ("+progs[i].Name+"): "+r.problem, rp)
		}
	}
	cov["hook_logs_equal_to_strace"] = compared
	cov["hook_events_cross_checked"] = events
	if sample != "" {
		cov["hook_cross_check_sample"] = sample
	}
	if compared == 0 && n > 0 {
		c.Inconclusive("hook completeness: no program could be cross-checked against strace")
	}
}
