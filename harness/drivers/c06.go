package drivers

import "strings"

func init() { Drivers["C06"] = runC06 }

func runC06(c *Ctx) int {
	mon := exMon{Writes: true}
	if c.Replay != "" {
		return replayExplorer(c, mon)
	}
	cases := explorerCases(c.Seed+50, c.Pick(5, 6), c.Pick(200, 3000), 30, c.Pick(120, 200))
	agg := c.runExplorer(cases, mon, c.Pick(60, 200), func(kind string) bool {
		// the write monitor's verdicts, crashes and failed-commit anomalies; API/model mismatches belong to C04
		return strings.HasPrefix(kind, "write:") || strings.HasPrefix(kind, "fault:") || kind == "panic"
	})
	cov := agg.coverage("online monitor on the write hook: before every write to the data file its byte range is intersected with the page sets (tree, overflow and freelist pages, computed by the independent decoder D from the file at the moment each meta page write completes, under bbolt's own metalock) of the newest committed version and of every version an open read transaction views, and a meta write must go to the slot that does not hold the newest committed meta. Histories: all legal event sequences of the enumerated length over {begin/close reader, commit, rollback, commit with one injected I/O fault, reopen} plus seeded random sequences; both backends, freelist-sync on/off, 1 KiB/4 KiB pages. distinct_nontrivial = distinct (reader-age pattern, writer outcome) situations with at least one reader open.")
	// the monitor sees I/O through the hooks only: cross-check the hook log against strace
	c.hookCompleteness(c.Pick(4, 48), cov)
	if agg.St.WritesChecked == 0 || agg.St.WritesWithOlder == 0 {
		c.Inconclusive("no write was checked while an older reader was open")
	}
	return c.Finish("exploration", cov, []string{
		"the shadow set of open readers is updated after Begin returns and before Rollback is called, so it is always a subset of the truly open readers: the monitor can miss a microsecond window but cannot accuse wrongly",
		"page sets come from D (harness/decode), not from bbolt",
	})
}
