package drivers

import (
	"bytes"
	"encoding/json"
	"errors"
	"fmt"
	"math/rand"
	"os"
	"path/filepath"
	"sync"
	"sync/atomic"
	"syscall"
	"time"

	bolt "go.etcd.io/bbolt"
	berrors "go.etcd.io/bbolt/errors"
	"go.etcd.io/bbolt/verifh/decode"
	"go.etcd.io/bbolt/verifh/exec"
	"go.etcd.io/bbolt/verifh/gen"
	"go.etcd.io/bbolt/verifh/iotrace"
	"go.etcd.io/bbolt/verifh/model"
)

func init() {
	Drivers["C14"] = runC14
	ChildModes["c14"] = childC14
}

type c14Args struct {
	Seed    int64        `json:"seed"`
	Rounds  int          `json:"rounds"`
	Backups int          `json:"backups"` // per round
	Dir     string       `json:"dir"`
	Opts    gen.OpenOpts `json:"opts"`
}

type c14Res struct {
	Round       int            `json:"round"`
	Viol        []string       `json:"viol,omitempty"`
	Backups     int            `json:"backups"`
	ByMethod    map[string]int `json:"by_method"`
	Ages        map[string]int `json:"reader_age_at_copy"`  // commits between the reader's begin and the start of the copy
	During      map[string]int `json:"commits_during_copy"` // commits that landed while the copy ran
	Commits     int            `json:"commits"`
	Bytes       int64          `json:"bytes_copied"`
	CopyPages   int            `json:"pages_accounted_in_copies"`
	Remaps      int            `json:"remaps"`
	SizeRejects int            `json:"size_rejects"`
}

// slowWriter lets many commits land while the copy is in progress.
type slowWriter struct {
	buf   bytes.Buffer
	n     int64
	calls int
	r     *rand.Rand
}

func (w *slowWriter) Write(p []byte) (int, error) {
	w.calls++
	if w.calls%3 == 0 {
		time.Sleep(time.Duration(50+w.r.Intn(400)) * time.Microsecond)
	}
	w.n += int64(len(p))
	return w.buf.Write(p)
}

func bucketOf(n int) string {
	switch {
	case n == 0:
		return "0"
	case n <= 2:
		return "1-2"
	case n <= 8:
		return "3-8"
	}
	return ">8"
}

func childC14(argfile string) {
	var a c14Args
	ReadArgs(argfile, &a)
	for round := 0; round < a.Rounds; round++ {
		id := fmt.Sprintf("%d", round)
		ChildStart(id)
		ChildDone(id, c14Round(&a, round))
	}
}

func c14Round(a *c14Args, round int) (res c14Res) {
	res = c14Res{Round: round, ByMethod: map[string]int{}, Ages: map[string]int{}, During: map[string]int{}}
	path := filepath.Join(a.Dir, fmt.Sprintf("c14-%d-%d.db", os.Getpid(), round))
	defer os.Remove(path)
	tr := iotrace.New(path)
	tr.EnableYields(a.Seed*53 + int64(round))
	var remaps int64
	tr.OnAfter = func(ev *bolt.VerifIOEvent, err error) {
		if ev.Op == "mmap" {
			atomic.AddInt64(&remaps, 1)
		}
	}
	defer iotrace.Uninstall()
	var mu sync.Mutex
	fail := func(f string, x ...any) {
		mu.Lock()
		if len(res.Viol) < 10 {
			res.Viol = append(res.Viol, fmt.Sprintf(f, x...))
		}
		mu.Unlock()
	}
	db, err := exec.Open(path, a.Opts)
	if err != nil {
		fail("open: %v", err)
		return
	}
	defer db.Close()
	var vmu sync.RWMutex
	versions := map[int][]string{}
	sim := gen.NewSim()
	var commitSeq atomic.Int64
	_ = db.View(func(tx *bolt.Tx) error { versions[tx.ID()] = exec.ModelDump(sim.Committed); return nil })
	stop := make(chan struct{})
	var wg sync.WaitGroup
	var backupsDone atomic.Int64
	nb := 3
	for bi := 0; bi < nb; bi++ {
		wg.Add(1)
		go func(bi int) {
			defer wg.Done()
			r := rand.New(rand.NewSource(a.Seed*19 + int64(round)*131 + int64(bi)))
			for k := 0; ; k++ {
				select {
				case <-stop:
					return
				default:
				}
				if int(backupsDone.Load()) >= a.Backups {
					return
				}
				tx, err := db.Begin(false)
				if err != nil {
					fail("Begin(false): %v", err)
					return
				}
				id := tx.ID()
				c0 := commitSeq.Load()
				// let the reader age: wait for 0..k commits before copying
				age := []int{0, 0, 1, 2, 5, 12}[r.Intn(6)]
				for w := 0; commitSeq.Load() < c0+int64(age) && w < 4000; w++ {
					time.Sleep(100 * time.Microsecond)
				}
				c1 := commitSeq.Load()
				size := tx.Size()
				method := []string{"WriteTo", "WriteTo+O_SYNC", "CopyFile"}[r.Intn(3)]
				copyPath := filepath.Join(a.Dir, fmt.Sprintf("c14-copy-%d-%d-%d-%d.db", os.Getpid(), round, bi, k))
				var n int64
				var written int64
				switch method {
				case "CopyFile":
					err = tx.CopyFile(copyPath, 0600)
					if fi, serr := os.Stat(copyPath); serr == nil {
						written = fi.Size()
						n = written
					}
				default:
					if method == "WriteTo+O_SYNC" {
						tx.WriteFlag = syscall.O_SYNC
					}
					sw := &slowWriter{r: r}
					n, err = tx.WriteTo(sw)
					written = sw.n
					_ = os.WriteFile(copyPath, sw.buf.Bytes(), 0600)
				}
				c2 := commitSeq.Load()
				if rerr := tx.Rollback(); rerr != nil {
					fail("reader Rollback: %v", rerr)
				}
				if err != nil {
					fail("%s of version %d: %v", method, id, err)
					os.Remove(copyPath)
					return
				}
				if n != size || written != size {
					fail("%s of version %d: returned n=%d, wrote %d bytes, tx.Size()=%d", method, id, n, written, size)
				}
				vmu.RLock()
				want := versions[id]
				vmu.RUnlock()
				if want == nil {
					fail("backup reader has id %d which the writer never produced", id)
				} else {
					pages := verifyCopy(copyPath, want, a.Opts.Freelist, a.Opts.NoFreelistSync, func(f string, x ...any) {
						fail("%s of version %d (reader aged %d commits, %d commits during the copy): %s", method, id, c1-c0, c2-c1, fmt.Sprintf(f, x...))
					})
					mu.Lock()
					res.Backups++
					res.ByMethod[method]++
					res.Ages[bucketOf(int(c1-c0))]++
					res.During[bucketOf(int(c2-c1))]++
					res.Bytes += written
					res.CopyPages += pages
					mu.Unlock()
				}
				os.Remove(copyPath)
				backupsDone.Add(1)
			}
		}(bi)
	}
	// writer: page-recycling batches plus growth
	wr := rand.New(rand.NewSource(a.Seed*13 + int64(round)))
	ps := a.Opts.PageSize
	grow := 0
	for ci := 0; int(backupsDone.Load()) < a.Backups && ci < 4000; ci++ {
		mu.Lock()
		nv := len(res.Viol)
		mu.Unlock()
		if nv > 0 {
			break
		}
		tx, err := db.Begin(true)
		if err != nil {
			fail("Begin(true): %v", err)
			break
		}
		sim.Apply(&gen.Step{Op: "begin", W: true})
		var steps []gen.Step
		if ci%7 == 6 {
			steps = append(steps, gen.Step{Op: "createIf", N: 3})
			for i := 0; i < 4; i++ {
				grow++
				steps = append(steps, gen.Step{Op: "put", P: []int{3}, K: &gen.K{ID: 1000 + grow%60}, V: &gen.V{Seed: wr.Uint32(), Len: ps + wr.Intn(2*ps)}})
			}
		} else {
			steps = explorerBatches(wr, ps, 1)[0]
		}
		ok := true
		for i := range steps {
			st := &steps[i]
			exp := sim.Apply(st)
			if exp.NilBkt {
				continue
			}
			if err := applyPlain(tx, st); !exec.ErrMatch(exp.Err, err) {
				fail("writer %s returned %v, model %q", st.Op, err, exp.Err)
				ok = false
				break
			}
		}
		if !ok {
			_ = tx.Rollback()
			break
		}
		if ci%6 == 2 {
			// a backup taken from the write transaction itself, before it commits: the copy is the state this
			// transaction started from (its own changes are not in the file yet), with the size the transaction reports
			wid := tx.ID()
			vmu.RLock()
			want := versions[wid-1]
			vmu.RUnlock()
			if want != nil {
				cp := filepath.Join(a.Dir, fmt.Sprintf("c14-wcopy-%d-%d-%d.db", os.Getpid(), round, ci))
				size := tx.Size()
				err := tx.CopyFile(cp, 0600)
				var written int64 = -1
				if fi, serr := os.Stat(cp); serr == nil {
					written = fi.Size()
				}
				switch {
				case err != nil:
					fail("CopyFile from write transaction %d: %v", wid, err)
				case written != size:
					fail("CopyFile from write transaction %d wrote %d bytes, tx.Size()=%d", wid, written, size)
				default:
					pages := verifyCopy(cp, want, a.Opts.Freelist, a.Opts.NoFreelistSync, func(f string, x ...any) {
						fail("CopyFile from write transaction %d (before its commit): %s", wid, fmt.Sprintf(f, x...))
					})
					mu.Lock()
					res.ByMethod["CopyFile-from-write-tx"]++
					res.CopyPages += pages
					mu.Unlock()
				}
				os.Remove(cp)
			}
		}
		if ci%9 == 4 {
			// "every amount of concurrent write activity" includes writers that fail: a commit rejected by the size
			// limit is rolled back by bbolt itself (freelist reload) while backups are being taken
			mk := gen.Step{Op: "createIf", N: 3}
			big := gen.Step{Op: "put", P: []int{3}, K: &gen.K{ID: 990}, V: &gen.V{Seed: wr.Uint32(), Len: 300 * ps}}
			sim.Apply(&mk)
			sim.Apply(&big)
			_ = applyPlain(tx, &mk)
			if err := applyPlain(tx, &big); err != nil {
				fail("writer put: %v", err)
				_ = tx.Rollback()
				break
			}
			id := tx.ID()
			vmu.Lock()
			versions[id] = exec.ModelDump(sim.Cur)
			vmu.Unlock()
			db.MaxSize = 1
			err := tx.Commit()
			db.MaxSize = 0
			switch {
			case err == nil:
				sim.Apply(&gen.Step{Op: "commit"})
				commitSeq.Add(1)
				res.Commits++
			case errors.Is(err, berrors.ErrMaxSizeReached):
				sim.Apply(&gen.Step{Op: "rollback"})
				vmu.Lock()
				delete(versions, id)
				vmu.Unlock()
				res.SizeRejects++
			default:
				fail("commit under an unsatisfiable size limit: %v", err)
			}
			continue
		}
		id := tx.ID()
		sim.Apply(&gen.Step{Op: "commit"})
		vmu.Lock()
		versions[id] = exec.ModelDump(sim.Committed)
		vmu.Unlock()
		if err := tx.Commit(); err != nil {
			fail("Commit: %v", err)
			break
		}
		commitSeq.Add(1)
		res.Commits++
		time.Sleep(time.Duration(wr.Intn(300)) * time.Microsecond)
	}
	close(stop)
	wg.Wait()
	res.Remaps = int(atomic.LoadInt64(&remaps))
	return
}

// verifyCopy: the copy is a complete, valid snapshot of the expected version.
func verifyCopy(path string, want []string, fl string, noFreelist bool, bad func(f string, x ...any)) (pages int) {
	img, err := os.ReadFile(path)
	if err != nil {
		bad("cannot read the copy: %v", err)
		return
	}
	d := decode.Decode(img, decode.Options{NoParity: true})
	for _, e := range d.Errors {
		bad("independent decoder on the copy: %s", e)
		break
	}
	if d.Content != nil {
		if diff := model.DiffDumps(want, exec.ModelDump(d.Content)); diff != "" {
			bad("the copy decodes to a content different from the transaction's snapshot: %s", diff)
		}
		pages = int(d.Meta.Pgid)
		if int64(len(img)) != int64(d.Meta.Pgid)*int64(d.PageSize) {
			bad("the copy is %d bytes, its high-water mark says %d", len(img), int64(d.Meta.Pgid)*int64(d.PageSize))
		}
		// both metas of a copy must be valid and describe the same tree
		if !d.Metas[0].Valid || !d.Metas[1].Valid {
			bad("a meta page of the copy is invalid (meta0 %q, meta1 %q)", d.Metas[0].Why, d.Metas[1].Why)
		} else if d.Metas[0].Root != d.Metas[1].Root || d.Metas[0].Pgid != d.Metas[1].Pgid || d.Metas[0].Freelist != d.Metas[1].Freelist {
			bad("the two meta pages of the copy describe different states")
		}
	}
	db, err := exec.Open(path, gen.OpenOpts{Freelist: fl, NoFreelistSync: noFreelist})
	if err != nil {
		bad("the copy does not open: %v", err)
		return
	}
	defer db.Close()
	_ = db.View(func(tx *bolt.Tx) error {
		got, probs := exec.DumpTx(tx, false)
		for _, p := range probs {
			bad("copy: %s", p)
		}
		if diff := model.DiffDumps(want, got); diff != "" {
			bad("the opened copy differs from the transaction's snapshot: %s", diff)
		}
		if errs := exec.CheckTx(tx); len(errs) > 0 {
			bad("Tx.Check on the copy: %s", errs[0])
		}
		return nil
	})
	return
}

func runC14(c *Ctx) int {
	if c.Replay != "" {
		fmt.Println("C14 replay files hold the round outcome; schedules are not replayable - re-run ./check C14 with the same VERIF_SEED")
		return 2
	}
	if bin := os.Getenv("VCHECK_RACE"); bin != "" {
		c.ChildBin = bin
	} else {
		c.Inconclusive("race-detector build not available")
	}
	nchild := c.Pick(8, 32)
	outs := make([][]c14Res, nchild)
	races := 0
	raceText := ""
	var rmu sync.Mutex
	c.Parallel(nchild, func(i int) {
		logp := filepath.Join(c.Tmp, fmt.Sprintf("race-c14-%d", i))
		a := c14Args{Seed: c.Seed*311 + int64(i), Rounds: c.Pick(2, 12), Backups: c.Pick(14, 25), Dir: c.Tmp,
			Opts: gen.OpenOpts{PageSize: []int{4096, 1024}[i%2], Freelist: backends[(i/2)%2], NoFreelistSync: (i/4)%2 == 1}}
		res := c.RunChild("c14", a, 30*time.Minute, "GORACE=halt_on_error=0 log_path="+logp)
		for _, l := range res.Lines {
			var r c14Res
			if json.Unmarshal([]byte(l), &r) == nil {
				outs[i] = append(outs[i], r)
			}
		}
		n, first := raceReports(logp)
		rmu.Lock()
		races += n
		if raceText == "" {
			raceText = first
		}
		rmu.Unlock()
		if unf := res.Unfinished(); len(unf) > 0 {
			if res.TimedOut {
				c.Inconclusive("backup round watchdog")
			} else {
				rp := c.SaveReplay(fmt.Sprintf("c14-crash-%d.json", i), map[string]any{"args": a, "stderr": res.Stderr})
				c.Report("crash:"+crashKind(res.Stderr), "process died during a backup round: "+tail(res.Stderr, 1500), rp)
			}
		}
	})
	c.ChildBin = ""
	tot := c14Res{ByMethod: map[string]int{}, Ages: map[string]int{}, During: map[string]int{}}
	sit := map[string]bool{}
	var samples []string
	for i, rs := range outs {
		for _, r := range rs {
			tot.Backups += r.Backups
			tot.Commits += r.Commits
			tot.Bytes += r.Bytes
			tot.CopyPages += r.CopyPages
			tot.Remaps += r.Remaps
			tot.SizeRejects += r.SizeRejects
			for k, v := range r.ByMethod {
				tot.ByMethod[k] += v
			}
			for k, v := range r.Ages {
				tot.Ages[k] += v
				if v > 0 {
					for k2, v2 := range r.During {
						if v2 > 0 {
							sit[fmt.Sprintf("cfg%d age %s during %s", i%8, k, k2)] = true
						}
					}
				}
			}
			for k, v := range r.During {
				tot.During[k] += v
			}
			if len(samples) < 3 {
				samples = append(samples, fmt.Sprintf("round: %d backups (%v) while %d commits ran; reader ages %v; commits during a copy %v", r.Backups, r.ByMethod, r.Commits, r.Ages, r.During))
			}
			if len(r.Viol) > 0 {
				rp := c.SaveReplay(fmt.Sprintf("c14-%d-round%d.json", i, r.Round), r)
				c.Report("backup", r.Viol[0], rp)
			}
		}
	}
	if races > 0 {
		rp := c.SaveReplay("race-report.json", map[string]any{"reports": races, "first": raceText})
		c.Report("race", fmt.Sprintf("%d data race report(s): %s", races, firstLines(raceText, 12)), rp)
	}
	if len(samples) == 0 {
		samples = []string{"(no round completed)"}
	}
	cov := map[string]any{
		"evaluations":                           tot.Backups,
		"distinct_nontrivial":                   len(sit),
		"rule":                                  "read transactions that have aged 0/1/2/5/12 commits call WriteTo (through a deliberately slow counting writer, with WriteFlag unset and O_SYNC) or CopyFile while a writer goroutine keeps committing page-recycling and growing batches (race detector on, seeded yields); for every backup: returned n == bytes written == tx.Size(); the copy is decoded by D (exact page accounting, both metas valid and equal, length == high-water mark) and must equal the model's version tx.ID(); it is opened by the real code: dump equals that version, Tx.Check silent. 1 KiB/4 KiB pages x both backends x freelist-sync on/off. distinct_nontrivial = distinct (configuration, reader-age class, commits-during-copy class) combinations observed.",
		"samples":                               samples,
		"backups_by_method":                     tot.ByMethod,
		"reader_age_at_copy_start":              tot.Ages,
		"commits_during_copy":                   tot.During,
		"writer_commits":                        tot.Commits,
		"bytes_copied":                          tot.Bytes,
		"pages_accounted_in_copies":             tot.CopyPages,
		"remaps_observed":                       tot.Remaps,
		"writer_commits_rejected_by_size_limit": tot.SizeRejects,
		"race_reports":                          races,
	}
	if tot.During["0"] == tot.Backups {
		c.Inconclusive("no commit ever landed during a copy")
	}
	return c.Finish("exploration", cov, []string{
		"WriteFlag is exercised with 0 and O_SYNC only (O_DIRECT needs aligned user buffers that io.CopyN does not guarantee)",
		"schedules are those the scheduler and the seeded yields produced",
	})
}
