package drivers

import (
	"encoding/json"
	"errors"
	"fmt"
	"math/rand"
	"os"
	"path/filepath"
	"runtime/debug"
	"strings"
	"time"

	bolt "go.etcd.io/bbolt"
	berrors "go.etcd.io/bbolt/errors"
	"go.etcd.io/bbolt/verifh/decode"
	"go.etcd.io/bbolt/verifh/exec"
	"go.etcd.io/bbolt/verifh/gen"
	"go.etcd.io/bbolt/verifh/model"
)

func init() {
	Drivers["C11"] = runC11
	ChildModes["c11"] = childC11
}

type c11Base struct {
	Name     string     `json:"name"`
	File     string     `json:"file"`
	PageSize int        `json:"page_size"`
	Freelist string     `json:"freelist"`
	Newest   uint64     `json:"newest"`
	Dumps    [][]string `json:"dumps"` // [0]: version of slot 0, [1]: version of slot 1
}

type c11Args struct {
	Base  c11Base `json:"base"`
	Dir   string  `json:"dir"`
	Part  string  `json:"part"` // "bytes0" | "bytes1" | "partial" | "both" | "trunc"
	Seed  int64   `json:"seed"`
	N     int     `json:"n"`
	Shard int     `json:"shard"`
	Of    int     `json:"of"`
}

type c11Res struct {
	Part     string         `json:"part"`
	Images   int            `json:"images"`
	Outcomes map[string]int `json:"outcomes"`
	Bad      []string       `json:"bad,omitempty"`
	Sample   string         `json:"sample,omitempty"`
}

// openAndDump opens path and returns the dump, or the error class.
func openAndDump(path string, fl string) (dump []string, checkErrs []string, err error, panicked string) {
	func() {
		debug.SetPanicOnFault(true)
		defer func() {
			if x := recover(); x != nil {
				panicked = fmt.Sprint(x)
			}
		}()
		var db *bolt.DB
		db, err = exec.Open(path, gen.OpenOpts{Freelist: fl})
		if err != nil {
			return
		}
		defer db.Close()
		_ = db.View(func(tx *bolt.Tx) error {
			dump, _ = exec.DumpTx(tx, false)
			checkErrs = exec.CheckTx(tx)
			return nil
		})
	}()
	return
}

func documentedOpenError(err error) bool {
	return errors.Is(err, berrors.ErrInvalid) || errors.Is(err, berrors.ErrVersionMismatch) || errors.Is(err, berrors.ErrChecksum) ||
		strings.Contains(err.Error(), "file size too small") || strings.Contains(err.Error(), "mmap")
}

func childC11(argfile string) {
	var a c11Args
	ReadArgs(argfile, &a)
	res := c11Res{Part: a.Part, Outcomes: map[string]int{}}
	id := fmt.Sprintf("%s-%s-%d", a.Base.Name, a.Part, a.Shard)
	ChildStart(id)
	orig, err := os.ReadFile(a.Base.File)
	if err != nil {
		res.Bad = append(res.Bad, "cannot read base file")
		ChildDone(id, res)
		return
	}
	ps := a.Base.PageSize
	work := filepath.Join(a.Dir, fmt.Sprintf("c11-%d.db", os.Getpid()))
	defer os.Remove(work)
	if err := os.WriteFile(work, orig, 0600); err != nil {
		res.Bad = append(res.Bad, err.Error())
		ChildDone(id, res)
		return
	}
	f, _ := os.OpenFile(work, os.O_RDWR, 0600)
	defer f.Close()
	bad := func(format string, x ...any) {
		if len(res.Bad) < 5 {
			res.Bad = append(res.Bad, fmt.Sprintf(format, x...))
		}
	}
	// expectOther: exactly one meta (slot) damaged -> open must succeed and present the other slot's version
	expectOther := func(what string, slot int) {
		res.Images++
		fmt.Printf("IMG %s\n", what) // the image description is on stdout before the open
		dump, chk, err, pan := openAndDump(work, a.Base.Freelist)
		switch {
		case pan != "":
			bad("%s: open panicked: %s", what, pan)
		case err != nil:
			bad("%s: open failed although meta %d is intact: %v", what, 1-slot, err)
		default:
			if d := model.DiffDumps(a.Base.Dumps[1-slot], dump); d != "" {
				bad("%s: presents something else than the committed state of the surviving meta %d: %s", what, 1-slot, d)
			}
			if len(chk) > 0 {
				bad("%s: Tx.Check: %s", what, chk[0])
			}
			res.Outcomes["fell-back-to-other-meta"]++
		}
	}
	expectError := func(what string) {
		res.Images++
		fmt.Printf("IMG %s\n", what)
		_, _, err, pan := openAndDump(work, a.Base.Freelist)
		switch {
		case pan != "":
			bad("%s: open panicked instead of returning an error: %s", what, pan)
		case err == nil:
			bad("%s: open succeeded and presents data", what)
		case !documentedOpenError(err):
			bad("%s: open returned an undocumented error: %v", what, err)
		default:
			cls := "other"
			switch {
			case errors.Is(err, berrors.ErrInvalid):
				cls = "ErrInvalid"
			case errors.Is(err, berrors.ErrChecksum):
				cls = "ErrChecksum"
			case errors.Is(err, berrors.ErrVersionMismatch):
				cls = "ErrVersionMismatch"
			case strings.Contains(err.Error(), "file size too small"):
				cls = "file size too small"
			}
			res.Outcomes["error:"+cls]++
		}
	}
	switch a.Part {
	case "bytes0", "bytes1":
		slot := int(a.Part[5] - '0')
		base := int64(slot*ps + decode.PageHeaderSize)
		n := 0
		for pos := 0; pos < decode.MetaSize; pos++ {
			for v := 0; v < 256; v++ {
				old := orig[base+int64(pos)]
				if byte(v) == old {
					continue
				}
				n++
				if n%a.Of != a.Shard {
					continue
				}
				_, _ = f.WriteAt([]byte{byte(v)}, base+int64(pos))
				expectOther(fmt.Sprintf("meta %d byte %d: %#02x -> %#02x", slot, pos, old, v), slot)
				_, _ = f.WriteAt([]byte{old}, base+int64(pos))
				if len(res.Bad) >= 5 {
					ChildDone(id, res)
					return
				}
			}
		}
		res.Sample = fmt.Sprintf("%s page size %d: every byte 0..63 of meta %d set to every other value (shard %d/%d)", a.Base.Name, ps, slot, a.Shard, a.Of)
	case "partial":
		// a would-be newer meta (txid newest+1, valid checksum) partially overwrites the older slot
		newest := decode.DecodeMeta(orig, int(a.Base.Newest%2)*ps, int(a.Base.Newest%2))
		slot := int((a.Base.Newest + 1) % 2)
		nm := newest
		nm.Txid = a.Base.Newest + 1
		nm.Pgid += 3
		nm.Root = newest.Pgid + 1
		if nm.Freelist != decode.NoFreelist {
			nm.Freelist = newest.Pgid
		}
		nm.PageID = uint64(slot)
		newBytes := decode.EncodeMeta(nm)
		oldBytes := append([]byte(nil), orig[slot*ps:slot*ps+len(newBytes)]...)
		try := func(img []byte, what string) {
			if string(img) == string(newBytes) || string(img) == string(oldBytes) {
				return // complete (not partial) or unchanged
			}
			_, _ = f.WriteAt(img, int64(slot*ps))
			expectOther(what, slot)
			_, _ = f.WriteAt(oldBytes, int64(slot*ps))
		}
		for j := 1; j < len(newBytes); j++ {
			img := append(append([]byte(nil), newBytes[:j]...), oldBytes[j:]...)
			try(img, fmt.Sprintf("newer meta (txid %d) overwrote only the first %d bytes of slot %d", nm.Txid, j, slot))
			img2 := append(append([]byte(nil), oldBytes[:j]...), newBytes[j:]...)
			try(img2, fmt.Sprintf("newer meta (txid %d) overwrote only bytes %d.. of slot %d", nm.Txid, j, slot))
		}
		// every field alone
		for _, fb := range [][2]int{{16, 20}, {20, 24}, {24, 28}, {28, 32}, {32, 40}, {40, 48}, {48, 56}, {56, 64}, {64, 72}, {72, 80}} {
			img := append([]byte(nil), oldBytes...)
			copy(img[fb[0]:fb[1]], newBytes[fb[0]:fb[1]])
			try(img, fmt.Sprintf("only bytes %d..%d of the newer meta reached slot %d", fb[0], fb[1], slot))
			img2 := append([]byte(nil), newBytes...)
			copy(img2[fb[0]:fb[1]], oldBytes[fb[0]:fb[1]])
			try(img2, fmt.Sprintf("all but bytes %d..%d of the newer meta reached slot %d", fb[0], fb[1], slot))
		}
		res.Sample = fmt.Sprintf("%s: partial overwrites of slot %d by a checksummed meta of txid %d", a.Base.Name, slot, nm.Txid)
	case "both":
		r := rand.New(rand.NewSource(a.Seed))
		for i := 0; i < a.N; i++ {
			p0, p1 := r.Intn(decode.MetaSize), r.Intn(decode.MetaSize)
			o0, o1 := orig[decode.PageHeaderSize+p0], orig[ps+decode.PageHeaderSize+p1]
			v0, v1 := o0^byte(1+r.Intn(255)), o1^byte(1+r.Intn(255))
			_, _ = f.WriteAt([]byte{v0}, int64(decode.PageHeaderSize+p0))
			_, _ = f.WriteAt([]byte{v1}, int64(ps+decode.PageHeaderSize+p1))
			expectError(fmt.Sprintf("meta 0 byte %d -> %#02x and meta 1 byte %d -> %#02x", p0, v0, p1, v1))
			_, _ = f.WriteAt([]byte{o0}, int64(decode.PageHeaderSize+p0))
			_, _ = f.WriteAt([]byte{o1}, int64(ps+decode.PageHeaderSize+p1))
		}
		res.Sample = fmt.Sprintf("%s: %d seeded pairs (one damaged byte in each meta)", a.Base.Name, a.N)
	case "trunc":
		f.Close()
		r := rand.New(rand.NewSource(a.Seed))
		step := ps / 64
		if step < 1 {
			step = 1
		}
		// too small to hold two meta pages
		for l := 1; l < 2*ps; l += step {
			_ = os.WriteFile(work, orig[:l], 0600)
			expectError(fmt.Sprintf("file truncated to %d bytes (page size %d)", l, ps))
		}
		for _, l := range []int{2*ps - 1, ps, ps - 1, ps + 1, 79, 80, 81, 16, 1} {
			_ = os.WriteFile(work, orig[:l], 0600)
			expectError(fmt.Sprintf("file truncated to %d bytes (page size %d)", l, ps))
		}
		// not a database
		for i := 0; i < 8; i++ {
			junk := make([]byte, []int{100, 2 * ps, 4 * ps, 32768, 3*ps + 17, 5000, 70000, 8 * ps}[i])
			if i%2 == 0 {
				r.Read(junk)
			} else {
				copy(junk, []byte(strings.Repeat("this is a text file, not a database\n", len(junk)/36+1)))
			}
			_ = os.WriteFile(work, junk, 0600)
			expectError(fmt.Sprintf("%d bytes that are not a database (kind %d)", len(junk), i%2))
		}
		res.Sample = fmt.Sprintf("%s: truncations 1..%d in steps of %d, random and text files", a.Base.Name, 2*ps-1, step)
	}
	ChildDone(id, res)
}

// c11BaseFiles writes base files at rest after a successful last commit.
func c11BaseFiles(c *Ctx, n int) []c11Base {
	var out []c11Base
	for i := 0; i < n; i++ {
		ps := []int{1024, 4096, 16384, 8192}[i%4]
		cfg := gen.Config{Profile: []string{"mixed", "buckets", "overwrite", "structural", "big", "mixed"}[(i/4)%6], PageSize: ps, Txs: 6, OpsPerTx: 8, KeySpace: 40, Rollback: 0.2, NoBigKeys: true}
		cfg.Opts.Freelist = backends[(i/2)%2]
		cfg.Opts.NoFreelistSync = i%5 == 3
		for try := 0; try < 50; try++ {
			p := gen.Generate(c.Seed+900, i*100+try, cfg)
			path := filepath.Join(c.Tmp, fmt.Sprintf("base-%d.db", i))
			os.Remove(path)
			r := exec.NewRunner(path, exec.Monitors{API: true, Dumps: true})
			dumps := map[uint64][]string{}
			var last uint64
			var cur uint64
			r.OnStep = func(r *exec.Runner, si int, s *gen.Step) {
				if s.Op == "commit" && r.Tx != nil && r.Tx.Writable() {
					cur = uint64(r.Tx.ID())
				}
			}
			r.AfterCommit = func(r *exec.Runner) {
				dumps[cur] = exec.ModelDump(r.Sim.Committed)
				last = cur
			}
			// the last step before close must be a successful commit: cut the program after its last commit
			lastCommit := -1
			for si, s := range p.Steps {
				if s.Op == "commit" {
					lastCommit = si
				}
			}
			if lastCommit < 0 {
				continue
			}
			// the trailing rollback/probe steps are dropped so that the last write activity is a successful commit
			p.Steps = append(p.Steps[:lastCommit+1:lastCommit+1], gen.Step{Op: "close"})
			if v := r.Run(p); len(v) > 0 {
				continue // belongs to C04
			}
			if dumps[last] == nil || dumps[last-1] == nil || len(dumps[last]) < 4 {
				continue
			}
			b := c11Base{Name: fmt.Sprintf("base%d-%s-ps%d-%s", i, cfg.Profile, ps, cfg.Opts.Freelist), File: path, PageSize: ps, Freelist: cfg.Opts.Freelist, Newest: last, Dumps: make([][]string, 2)}
			b.Dumps[last%2] = dumps[last]
			b.Dumps[(last-1)%2] = dumps[last-1]
			// sanity by D: both metas valid, txids N and N-1
			img, _ := os.ReadFile(path)
			// (fields are read whether or not D considers the metas valid: the files come from the build under test)
			mN := decode.DecodeMeta(img, int(last%2)*ps, int(last%2))
			mP := decode.DecodeMeta(img, int((last-1)%2)*ps, int((last-1)%2))
			if mN.Txid != last || mP.Txid != last-1 {
				continue
			}
			out = append(out, b)
			break
		}
	}
	return out
}

func runC11(c *Ctx) int {
	if c.Replay != "" {
		fmt.Println("C11 replay files are self-describing (base file content + damage); re-run ./check C11 with the same VERIF_SEED to reproduce")
		return 2
	}
	bases := c11BaseFiles(c, c.Pick(4, 24))
	if len(bases) == 0 {
		c.Inconclusive("no base file could be produced")
	}
	type job struct{ a c11Args }
	var jobs []job
	for bi, b := range bases {
		full := c.Quick() && bi < 2 || !c.Quick()
		shards := 4
		for _, part := range []string{"bytes0", "bytes1"} {
			if full {
				for s := 0; s < shards; s++ {
					jobs = append(jobs, job{c11Args{Base: b, Dir: c.Tmp, Part: part, Shard: s, Of: shards}})
				}
			} else {
				// the remaining base files of the quick tier: a quarter of the byte x value space
				jobs = append(jobs, job{c11Args{Base: b, Dir: c.Tmp, Part: part, Shard: int(c.Seed) % shards, Of: shards}})
			}
		}
		jobs = append(jobs, job{c11Args{Base: b, Dir: c.Tmp, Part: "partial", Of: 1}})
		jobs = append(jobs, job{c11Args{Base: b, Dir: c.Tmp, Part: "both", Seed: c.Seed + int64(bi), N: c.Pick(600, 10000), Of: 1}})
		jobs = append(jobs, job{c11Args{Base: b, Dir: c.Tmp, Part: "trunc", Seed: c.Seed + int64(bi), Of: 1}})
	}
	results := make([]c11Res, len(jobs))
	c.Parallel(len(jobs), func(i int) {
		res := c.RunChild("c11", jobs[i].a, 30*time.Minute)
		got := false
		for _, l := range res.Lines {
			if json.Unmarshal([]byte(l), &results[i]) == nil {
				got = true
			}
		}
		if !got {
			if res.TimedOut {
				c.Inconclusive("C11 shard watchdog")
				return
			}
			rp := c.SaveReplay(fmt.Sprintf("c11-crash-%d.json", i), map[string]any{"base": jobs[i].a.Base.Name, "part": jobs[i].a.Part, "stderr": res.Stderr, "dumps": jobs[i].a.Base.Dumps})
			c.Report("open-crash", fmt.Sprintf("process died while opening a damaged image (%s %s; %s): %s", jobs[i].a.Base.Name, jobs[i].a.Part, res.LastLine, tail(res.Stderr, 1000)), rp)
		}
	})
	images := 0
	byPart := map[string]int{}
	outcomes := map[string]int{}
	var samples []string
	for i, r := range results {
		images += r.Images
		byPart[r.Part] += r.Images
		for k, v := range r.Outcomes {
			outcomes[k] += v
		}
		if r.Sample != "" && len(samples) < 4 && (len(samples) == 0 || !strings.HasPrefix(r.Sample, samples[len(samples)-1][:10])) {
			samples = append(samples, r.Sample)
		}
		for _, b := range r.Bad {
			rp := c.SaveReplay(fmt.Sprintf("c11-%d.json", i), map[string]any{"base": jobs[i].a.Base.Name, "part": r.Part, "violation": b})
			kind := "one-meta-damaged"
			if r.Part == "both" || r.Part == "trunc" {
				kind = "not-rejected"
			}
			c.Report(kind, jobs[i].a.Base.Name+": "+b, rp)
		}
	}
	var names []string
	for _, b := range bases {
		names = append(names, b.Name)
	}
	cov := map[string]any{
		"evaluations":         images,
		"distinct_nontrivial": images - byPart["trunc"],
		"rule":                "base files at rest after a successful last commit (page sizes 1024/4096/8192/16384, both backends, freelist persisted or not); for the first base files of the quick tier (all in thorough) EVERY byte of the 64-byte meta structure x EVERY other byte value in either slot (remaining quick base files: a quarter of that space), every prefix/suffix/single-field partial overwrite of the older slot by a correctly checksummed meta of txid N+1: open must succeed and present exactly the other slot's committed version (model), Tx.Check silent; seeded pairs with one damaged byte in each meta, truncations to every length below two pages in steps, random and text files: open must return a documented error, never panic or present data. Each image is distinct by construction; distinct_nontrivial excludes truncation images.",
		"samples":             samples,
		"exhaustive":          true,
		"base_files":          names,
		"images_by_part":      byPart,
		"outcomes":            outcomes,
	}
	if len(samples) == 0 {
		cov["samples"] = names
	}
	if byPart["bytes0"] == 0 || byPart["bytes1"] == 0 {
		c.Inconclusive("no single-byte damage image was opened")
	}
	return c.Finish("fault_enumeration", cov, []string{
		"that every single-byte change invalidates a meta is observed, not assumed (the surviving meta's version is what the model must see)",
		"the 16-byte page header of a meta page is not part of 'magic, version or checksummed content' and is left alone",
		"truncations are limited to lengths below two pages ('too small'); a file cut inside its data area with both metas intact is outside this property",
	})
}
