package drivers

import (
	"encoding/json"
	"fmt"
	"math/rand"
	"os"
	"path/filepath"
	"strings"
	"time"

	"go.etcd.io/bbolt/verifh/exec"
	"go.etcd.io/bbolt/verifh/gen"
	"go.etcd.io/bbolt/verifh/iotrace"
)

func init() {
	Drivers["C08"] = runC08
	ChildModes["c08"] = childC08
}

type faultSpec struct {
	K       int `json:"k"`
	Partial int `json:"partial,omitempty"`
}

type c08Args struct {
	Prog   string      `json:"prog"`
	Faults []faultSpec `json:"faults"` // empty: fault-free counting run
	Dir    string      `json:"dir"`
}

type c08Res struct {
	K        int                 `json:"k"`
	Partial  int                 `json:"partial,omitempty"`
	Events   []string            `json:"events,omitempty"` // counting run: op@off/size per event
	Viol     []exec.Violation    `json:"viol,omitempty"`
	Faults   []exec.FaultOutcome `json:"faults,omitempty"`
	Commits  int                 `json:"commits"`
	Decodes  int                 `json:"decodes"`
	TxChecks int                 `json:"tx_checks"`
}

var c08Mon = exec.Monitors{API: true, Dumps: true, TxCheck: true, Accounting: true, FreeExact: true}

func c08Run(p *gen.Program, path string, f *faultSpec) (res c08Res) {
	os.Remove(path)
	tr := iotrace.New(path)
	tr.CursorLimit = 1_000_000
	tr.Install()
	defer iotrace.Uninstall()
	r := exec.NewRunner(path, c08Mon)
	r.Tracer = tr
	r.GlobalFault = true
	armed := false
	r.AfterOpen = func(r *exec.Runner) {
		if armed {
			return
		}
		armed = true
		tr.MetaLimit = int64(2 * r.DB.VerifPageSize())
		if f != nil {
			tr.Arm(&iotrace.Fault{K: f.K, Partial: f.Partial})
		} else {
			tr.Arm(nil)
			tr.Reset()
		}
	}
	if os.Getenv("VERIF_DEBUG") != "" {
		r.OnStep = func(r *exec.Runner, i int, s *gen.Step) {
			b, _ := json.Marshal(s)
			fmt.Printf("step %d %s | events so far %d | model buckets %v\n", i, b, tr.Count(), r.Sim.Committed.AllPaths())
		}
	}
	res.Viol = r.Run(p)
	res.Faults = r.FaultLog
	res.Commits = r.Stats.Commits
	res.Decodes = r.Stats.FileDecodes
	res.TxChecks = r.Stats.TxChecks
	if f == nil {
		for _, e := range tr.Snapshot() {
			if strings.HasPrefix(e.Op, "marker") {
				continue
			}
			res.Events = append(res.Events, fmt.Sprintf("%s@%d/%d", e.Op, e.Off, e.Size))
		}
	} else {
		res.K, res.Partial = f.K, f.Partial
		if _, fired, _, _ := tr.SinceMark(); fired == "" && tr.Fired == nil && len(res.Viol) == 0 {
			// the program issued fewer than K events: nothing was injected
		}
	}
	os.Remove(path)
	return
}

func childC08(argfile string) {
	var a c08Args
	ReadArgs(argfile, &a)
	p, err := loadProgram(a.Prog)
	if err != nil {
		fmt.Fprintln(os.Stderr, "child: load program:", err)
		os.Exit(3)
	}
	path := filepath.Join(a.Dir, fmt.Sprintf("c08-%d.db", os.Getpid()))
	if len(a.Faults) == 0 {
		ChildStart("count")
		ChildDone("count", c08Run(p, path, nil))
		return
	}
	for _, f := range a.Faults {
		id := fmt.Sprintf("%d:%d", f.K, f.Partial)
		ChildStart(id)
		f := f
		ChildDone(id, c08Run(p, path, &f))
	}
}

// faultKind names the class of the failed I/O call.
func faultKind(fo exec.FaultOutcome) string {
	op := fo.FiredOp
	switch {
	case op == "write" && fo.MetaWritten:
		return "meta-write-torn-behind-content"
	case op == "fdatasync" && fo.MetaWritten:
		return "final-sync"
	case op == "fdatasync":
		return "data-sync"
	}
	return op
}

func c08Programs(seed int64, n int) []*gen.Program {
	var out []*gen.Program
	for i := 0; i < n; i++ {
		cfg := gen.Config{
			Profile:   []string{"mixed", "buckets", "structural", "overwrite", "bigkeys"}[i%5],
			PageSize:  []int{1024, 4096}[(i/4)%2],
			Txs:       5,
			OpsPerTx:  8,
			KeySpace:  60,
			Reopen:    0.25,
			Rollback:  0.15,
			NoBigKeys: i%5 != 4,
		}
		cfg.Opts.Freelist = backends[(i/8)%2]
		cfg.Opts.NoFreelistSync = (i/16)%2 == 1
		if i%3 == 0 {
			cfg.Opts.InitialMmapSize = 0 // remaps (mmap events) inside commits
		} else {
			cfg.Opts.InitialMmapSize = 1 << 22
		}
		if i%4 >= 2 {
			// later sessions of the file may switch backend and freelist-sync (the initial map size is kept)
			mm := cfg.Opts.InitialMmapSize
			cfg.OptSched = func(r *rand.Rand) gen.OpenOpts {
				o := sessionOpts(r)
				o.InitialMmapSize = mm
				return o
			}
		}
		p := gen.Generate(seed, i, cfg)
		// judge the final state once more after a reopen
		o := *p.Steps[0].Opts
		p.Steps = append(p.Steps, gen.Step{Op: "reopen", Opts: &o}, gen.Step{Op: "close"})
		out = append(out, p)
	}
	return out
}

// faultTemplates: explorer cases with one failing commit and 0, 1 or 3 readers held across it.
func faultTemplates(seed int64, kmax int) []*exCase {
	var out []*exCase
	ci := 0
	for _, ps := range []int{1024, 4096} {
		for _, fl := range backends {
			for _, nfs := range []bool{false, true} {
				o := gen.OpenOpts{PageSize: ps, Freelist: fl, NoFreelistSync: nfs, InitialMmapSize: 64 << 20}
				for _, nr := range []int{0, 1, 3} {
					for k := 0; k < kmax; k++ {
						r := rand.New(rand.NewSource(seed*7 + int64(ci)))
						evs := []exEvent{{K: "WC"}, {K: "WC"}}
						for i := 0; i < nr; i++ {
							evs = append(evs, exEvent{K: "R+"}, exEvent{K: "WC"})
						}
						evs = append(evs, exEvent{K: "WF", A: k})
						if nr > 0 {
							evs = append(evs, exEvent{K: "R+"})
						}
						second := exEvent{K: "WF", A: (k + 5) % kmax}
						if k%2 == 1 {
							second = exEvent{K: "WM", A: k} // a commit rejected by the size limit (rollback before any page was written)
						}
						evs = append(evs, exEvent{K: "WC"}, exEvent{K: "WC"}, second, exEvent{K: "WC"})
						for i := 0; i < nr+1; i++ {
							evs = append(evs, exEvent{K: "R-o"})
						}
						evs = append(evs, exEvent{K: "WC"}, exEvent{K: "RO"}, exEvent{K: "WC"})
						out = append(out, &exCase{Name: "fault", Seed: seed, Case: ci, Opts: o, Batches: explorerBatches(r, ps, 8), Events: evs})
						ci++
					}
				}
			}
		}
	}
	return out
}

func runC08(c *Ctx) int {
	exmon := exMon{Readers: true, Writes: true, Reclaim: true, Account: true}
	if c.Replay != "" {
		if strings.Contains(filepath.Base(c.Replay), "-fault-") {
			return replayExplorer(c, exmon)
		}
		// program replay: file holds {"prog":..., "fault":...}
		var rp struct {
			Prog  *gen.Program `json:"prog"`
			Fault faultSpec    `json:"fault"`
		}
		b, err := os.ReadFile(c.Replay)
		if err != nil || json.Unmarshal(b, &rp) != nil || rp.Prog == nil {
			fmt.Println("cannot load replay")
			return 2
		}
		res := c08Run(rp.Prog, filepath.Join(c.Tmp, "replay.db"), &rp.Fault)
		for _, v := range res.Viol {
			fmt.Printf("VIOLATION property=C08 replay=%s\n  %s\n", c.Replay, v.String())
		}
		if len(res.Viol) > 0 {
			return 1
		}
		fmt.Println("replay: no violation")
		return 0
	}

	// ---- part (a): every k-th I/O call of whole programs
	progs := c08Programs(c.Seed+400, c.Pick(24, 200))
	dir := filepath.Join(c.Tmp, "progs")
	_ = os.MkdirAll(dir, 0700)
	type job struct {
		pi     int
		file   string
		faults []faultSpec
	}
	files := make([]string, len(progs))
	counts := make([][]string, len(progs))
	c.Parallel(len(progs), func(i int) {
		files[i] = filepath.Join(dir, fmt.Sprintf("C08-prog-seed%d-case%d.json", progs[i].Seed, progs[i].Case))
		b, _ := json.Marshal(progs[i])
		_ = os.WriteFile(files[i], b, 0600)
		res := c.RunChild("c08", c08Args{Prog: files[i], Dir: c.Tmp}, 2*time.Minute)
		for _, l := range res.Lines {
			var r c08Res
			if json.Unmarshal([]byte(l), &r) == nil {
				if len(r.Viol) > 0 {
					c.Inconclusive(fmt.Sprintf("fault-free run of %s is not clean: %s", filepath.Base(files[i]), r.Viol[0].String()))
				}
				counts[i] = r.Events
			}
		}
	})
	var jobs []job
	totalK := 0
	for i := range progs {
		var fs []faultSpec
		for k, e := range counts[i] {
			fs = append(fs, faultSpec{K: k + 1})
			var op string
			var off, size int
			fmt.Sscanf(strings.Replace(strings.Replace(e, "@", " ", 1), "/", " ", 1), "%s %d %d", &op, &off, &size)
			if op == "write" && off < 2*progs[i].Steps[0].Opts.PageSize {
				// tear the meta page inside its meaningful bytes: the checksum makes it invalid
				fs = append(fs, faultSpec{K: k + 1, Partial: 40}, faultSpec{K: k + 1, Partial: 72})
			}
			if op == "write" && size >= 1024 {
				// data (and meta) page writes also fail after the first j bytes reached the file
				for _, j := range []int{512, (size / 2) &^ 511, size - 512} {
					if j > 0 && j < size {
						fs = append(fs, faultSpec{K: k + 1, Partial: j})
					}
				}
			}
		}
		totalK += len(counts[i])
		const per = 60
		for lo := 0; lo < len(fs); lo += per {
			hi := lo + per
			if hi > len(fs) {
				hi = len(fs)
			}
			jobs = append(jobs, job{pi: i, file: files[i], faults: fs[lo:hi]})
		}
	}
	kinds := map[string]int{}
	outcomes := map[string]int{}
	runs, decodes, txchecks := 0, 0, 0
	var samples []string
	results := make([][]c08Res, len(jobs))
	crashes := make([]string, len(jobs))
	c.Parallel(len(jobs), func(ji int) {
		j := jobs[ji]
		remaining := j.faults
		for attempt := 0; len(remaining) > 0 && attempt < 50; attempt++ {
			res := c.RunChild("c08", c08Args{Prog: j.file, Faults: remaining, Dir: c.Tmp}, time.Duration(60+5*len(remaining))*time.Second)
			for _, l := range res.Lines {
				var r c08Res
				if json.Unmarshal([]byte(l), &r) == nil {
					results[ji] = append(results[ji], r)
				}
			}
			unf := res.Unfinished()
			if res.ExitErr == nil && len(unf) == 0 {
				break
			}
			if len(unf) == 0 {
				c.Inconclusive("c08 child failed outside a case: " + tail(res.Stderr, 300))
				break
			}
			// find the unfinished fault
			idx := -1
			for i, f := range remaining {
				if fmt.Sprintf("%d:%d", f.K, f.Partial) == unf[0] {
					idx = i
				}
			}
			if idx < 0 {
				break
			}
			if res.TimedOut {
				c.Inconclusive(fmt.Sprintf("watchdog fired: %s fault %s", filepath.Base(j.file), unf[0]))
			} else {
				crashes[ji] = fmt.Sprintf("fault %s: %v\n%s", unf[0], res.ExitErr, res.Stderr)
				rp := c.SaveReplay(fmt.Sprintf("C08-prog-case%d-k%s.json", progs[j.pi].Case, strings.Replace(unf[0], ":", "p", 1)), map[string]any{"prog": progs[j.pi], "fault": remaining[idx]})
				c.Report("crash:"+crashKind(res.Stderr), fmt.Sprintf("process died after injected fault %s in %s: %s", unf[0], filepath.Base(j.file), tail(res.Stderr, 1200)), rp)
			}
			remaining = remaining[idx+1:]
		}
	})
	for ji, rs := range results {
		for _, r := range rs {
			runs++
			decodes += r.Decodes
			txchecks += r.TxChecks
			for _, fo := range r.Faults {
				if fo.FiredOp == "" {
					continue
				}
				k := faultKind(fo)
				kinds[k]++
				if strings.HasPrefix(fo.FiredOp, "open:") {
					outcomes["open-failed-then-ok"]++
				} else if fo.Present {
					outcomes[k+":present"]++
				} else {
					outcomes[k+":absent"]++
				}
			}
			if len(r.Viol) > 0 {
				pi := jobs[ji].pi
				rp := c.SaveReplay(fmt.Sprintf("C08-prog-case%d-k%dp%d.json", progs[pi].Case, r.K, r.Partial), map[string]any{"prog": progs[pi], "fault": faultSpec{K: r.K, Partial: r.Partial}})
				c.Report(r.Viol[0].Kind, fmt.Sprintf("%s with I/O call %d failing (partial %d): %s", filepath.Base(jobs[ji].file), r.K, r.Partial, r.Viol[0].String()), rp)
			}
			if len(samples) < 3 && len(r.Faults) > 0 {
				samples = append(samples, fmt.Sprintf("%s: fail I/O call %d (partial %d) -> %+v", filepath.Base(jobs[ji].file), r.K, r.Partial, r.Faults[len(r.Faults)-1]))
			}
		}
	}

	// ---- part (b): readers held across the failure (explorer, all monitors on)
	tcases := faultTemplates(c.Seed+500, c.Pick(20, 48))
	agg := c.runExplorer(tcases, exmon, c.Pick(40, 100), nil)
	cov := agg.coverage("")
	cov["evaluations"] = runs + agg.Cases
	cov["distinct_nontrivial"] = len(outcomes) + cov["distinct_nontrivial"].(int)
	cov["rule"] = "part (a): for generated programs (2 page sizes x both backends x freelist-sync on/off, with and without remaps) a fault-free run lists the K hook events (writes, fdatasyncs, truncates, fsyncs, mmaps) issued after the first open; then for EVERY k in 1..K the program is re-run from an empty file with event k failing once - fail-before for every kind, and for page writes also 'first j bytes written, then error' (j = 512, half, all but 512); after the failure: error surfaced, in-process dump equals the model (strictly absent unless the failing call is the final sync after a complete meta write, then the in-process outcome is read and required to persist), Tx.Check + D accounting + allocator export exact, further transactions run, final dump after reopen equals the model. part (b): the same single-fault commits in explorer sequences with 0, 1 and 3 read transactions held across the failure (k = 1..kmax), readers re-dumped after every later event, write monitor and allocator invariants on. distinct_nontrivial = distinct (failed-call class, outcome) pairs of part (a) + distinct (reader-age pattern, outcome, failed call) situations of part (b). exhaustive over k for every program used."
	cov["exhaustive"] = true
	cov["fault_runs"] = runs
	cov["hook_events_enumerated"] = totalK
	cov["fault_runs_by_failed_call"] = kinds
	cov["outcomes"] = outcomes
	cov["file_images_checked_after_faults"] = decodes
	cov["tx_check_runs"] = txchecks
	if s, ok := cov["samples"].([]string); ok {
		cov["samples"] = append(samples, s...)
	}
	for _, k := range []string{"write", "data-sync", "final-sync", "truncate", "fsync", "mmap"} {
		if kinds[k] == 0 {
			c.Inconclusive("no fault run failed a " + k + " call")
		}
	}
	if agg.St.FailedCommits == 0 {
		c.Inconclusive("no failed commit with readers held was observed")
	}
	return c.Finish("fault_enumeration", cov, []string{
		"one injected failure per run (the property's quantifier); the failing call returns an error, the kernel state is as if the call was not made (or made for the first j bytes)",
		"an mmap failure leaves the DB object unmapped by design: 'proceeds without blocking' is checked as 'Begin returns promptly with a transaction or ErrInvalidMapping', content and accounting after close and reopen",
	})
}
