package drivers

import (
	"encoding/json"
	"fmt"
	"math/rand"
	"sort"
	"strings"
	"time"
	"unsafe"

	"go.etcd.io/bbolt/internal/common"
	"go.etcd.io/bbolt/internal/freelist"
	"go.etcd.io/bbolt/verifh/decode"
)

func init() {
	Drivers["C09"] = runC09
	ChildModes["c09"] = childC09
}

// ---------------------------------------------------------------- specification monitor

type pend struct {
	id uint64
	a  uint64 // allocating tx, 0 = unknown
}

// alSpec is the specification state of the allocator, maintained by the monitor.
type alSpec struct {
	F map[uint64]bool
	P map[uint64][]pend // by freeing tx
	R []uint64
	A map[uint64]uint64 // first id of an allocation -> tx
}

func newSpec() *alSpec {
	return &alSpec{F: map[uint64]bool{}, P: map[uint64][]pend{}, A: map[uint64]uint64{}}
}

func (s *alSpec) clone() *alSpec {
	c := newSpec()
	for k := range s.F {
		c.F[k] = true
	}
	for k, v := range s.P {
		c.P[k] = append([]pend(nil), v...)
	}
	c.R = append([]uint64(nil), s.R...)
	for k, v := range s.A {
		c.A[k] = v
	}
	return c
}

func sortedIDs(m map[uint64]bool) []uint64 {
	out := make([]uint64, 0, len(m))
	for k := range m {
		out = append(out, k)
	}
	sort.Slice(out, func(i, j int) bool { return out[i] < out[j] })
	return out
}

// alMon drives one allocator instance and judges every transition.
type alMon struct {
	kind  string
	f     freelist.Interface
	s     *alSpec
	log   []string
	bad   string
	trans int
}

func newAllocator(kind string) freelist.Interface {
	if kind == "hashmap" {
		return freelist.NewHashMapFreelist()
	}
	return freelist.NewArrayFreelist()
}

func newMon(kind string) *alMon {
	return &alMon{kind: kind, f: newAllocator(kind), s: newSpec()}
}

func (m *alMon) fail(format string, a ...any) {
	if m.bad == "" {
		m.bad = fmt.Sprintf(format, a...)
	}
}

func (m *alMon) note(format string, a ...any) {
	m.log = append(m.log, fmt.Sprintf(format, a...))
}

// export reads the implementation's state.
func (m *alMon) export() (F map[uint64]bool, P map[uint64][]pend, R []uint64, cache map[uint64]bool, allocs map[uint64]uint64) {
	st := freelist.VerifExport(m.f)
	F = map[uint64]bool{}
	for _, id := range st.Free {
		if F[uint64(id)] {
			m.fail("free id %d appears twice in the allocator", id)
		}
		F[uint64(id)] = true
	}
	P = map[uint64][]pend{}
	for tx, l := range st.Pending {
		for _, p := range l {
			P[uint64(tx)] = append(P[uint64(tx)], pend{uint64(p.ID), uint64(p.AllocTx)})
		}
	}
	for _, r := range st.Readers {
		R = append(R, uint64(r))
	}
	cache = map[uint64]bool{}
	for _, id := range st.Cache {
		cache[uint64(id)] = true
	}
	allocs = map[uint64]uint64{}
	for k, v := range st.Allocs {
		allocs[uint64(k)] = uint64(v)
	}
	return
}

func eqSet(a, b map[uint64]bool) bool {
	if len(a) != len(b) {
		return false
	}
	for k := range a {
		if !b[k] {
			return false
		}
	}
	return true
}

func pendSet(P map[uint64][]pend) map[[2]uint64]uint64 {
	out := map[[2]uint64]uint64{}
	for tx, l := range P {
		for _, p := range l {
			out[[2]uint64{tx, p.id}] = p.a
		}
	}
	return out
}

func eqPend(a, b map[uint64][]pend) string {
	// the allocating tx recorded for a pending page is bookkeeping (a staler value only makes the
	// release rule more conservative); which pages are pending for which tx is the specification
	pa, pb := pendSet(a), pendSet(b)
	for k := range pa {
		if _, ok := pb[k]; !ok {
			return fmt.Sprintf("page %d pending for tx %d is missing", k[1], k[0])
		}
	}
	for k := range pb {
		if _, ok := pa[k]; !ok {
			return fmt.Sprintf("page %d unexpectedly pending for tx %d", k[1], k[0])
		}
	}
	return ""
}

// consistent checks the derived observers against the exported state.
func (m *alMon) consistent(what string, universe uint64) {
	F, P, _, cache, _ := m.export()
	np := 0
	all := map[uint64]bool{}
	for id := range F {
		all[id] = true
	}
	for _, l := range P {
		for _, p := range l {
			np++
			if all[p.id] {
				m.fail("%s: page %d is both free and pending (or pending twice)", what, p.id)
			}
			all[p.id] = true
		}
	}
	if m.f.FreeCount() != len(F) || m.f.PendingCount() != np || m.f.Count() != len(F)+np {
		m.fail("%s: Count/FreeCount/PendingCount = %d/%d/%d, state has %d free %d pending", what, m.f.Count(), m.f.FreeCount(), m.f.PendingCount(), len(F), np)
	}
	// Freed(id) <=> id in free or pending, for every id of the universe
	for id := uint64(0); id < universe; id++ {
		if m.f.Freed(common.Pgid(id)) != all[id] {
			m.fail("%s: Freed(%d)=%v but free-or-pending=%v", what, id, m.f.Freed(common.Pgid(id)), all[id])
			break
		}
	}
	if !eqSet(cache, all) {
		m.fail("%s: membership cache has %d ids, free+pending has %d", what, len(cache), len(all))
	}
	// Copyall: one sorted list of all of them
	dst := make([]common.Pgid, m.f.Count())
	m.f.Copyall(dst)
	for i, id := range dst {
		if !all[uint64(id)] || (i > 0 && dst[i-1] >= id) {
			m.fail("%s: Copyall is not the sorted union of free and pending (index %d: %d)", what, i, id)
			break
		}
	}
	// EstimatedWritePageSize never too small
	n := len(all)
	need := 16 + 8*n
	if n >= 0xFFFF {
		need += 8
	}
	if m.f.EstimatedWritePageSize() < need {
		m.fail("%s: EstimatedWritePageSize=%d but %d ids need %d bytes", what, m.f.EstimatedWritePageSize(), n, need)
	}
}

func hasRun(F map[uint64]bool, n int) bool {
	ids := sortedIDs(F)
	run := 0
	for i, id := range ids {
		if i > 0 && ids[i-1]+1 == id {
			run++
		} else {
			run = 1
		}
		if run >= n {
			return true
		}
	}
	return false
}

func (m *alMon) guard(what string, fn func()) (panicked bool) {
	defer func() {
		if x := recover(); x != nil {
			panicked = true
			m.note("%s panicked: %v", what, x)
		}
	}()
	fn()
	return false
}

// Allocate per specification.
func (m *alMon) allocate(tx uint64, n int) uint64 {
	m.trans++
	before := m.s.clone()
	var p common.Pgid
	if m.guard("Allocate", func() { p = m.f.Allocate(common.Txid(tx), n) }) {
		m.fail("Allocate(%d,%d) panicked: %s", tx, n, m.log[len(m.log)-1])
		return 0
	}
	m.note("Allocate(tx%d,%d)=%d", tx, n, p)
	F, P, _, _, allocs := m.export()
	if p == 0 {
		if hasRun(before.F, n) {
			m.fail("Allocate(%d) reports none although %d consecutive free pages exist in %v", n, n, sortedIDs(before.F))
		}
		if !eqSet(F, before.F) {
			m.fail("failed Allocate changed the free set")
		}
		return 0
	}
	if p < 2 {
		m.fail("Allocate handed out page %d", p)
	}
	for i := 0; i < n; i++ {
		if !before.F[uint64(p)+uint64(i)] {
			m.fail("Allocate(%d)=%d: page %d was not free (free: %v)", n, p, uint64(p)+uint64(i), sortedIDs(before.F))
		}
		delete(m.s.F, uint64(p)+uint64(i))
	}
	if !eqSet(F, m.s.F) {
		m.fail("after Allocate(%d)=%d the free set is %v, expected %v", n, p, sortedIDs(F), sortedIDs(m.s.F))
	}
	if d := eqPend(m.s.P, P); d != "" {
		m.fail("Allocate changed the pending sets: %s", d)
	}
	if allocs[uint64(p)] != tx {
		m.fail("Allocate(tx%d)=%d is not recorded as allocated by tx %d", tx, p, tx)
	}
	m.s.A[uint64(p)] = tx
	return uint64(p)
}

// Free per specification: page and overflow become pending for tx, never directly reusable.
func (m *alMon) free(tx uint64, id uint64, overflow uint32) {
	m.trans++
	a := m.s.A[id]
	pg := common.NewPage(common.Pgid(id), common.LeafPageFlag, 0, overflow)
	expectPanic := id <= 1
	for i := uint64(0); i <= uint64(overflow); i++ {
		if m.s.F[id+i] {
			expectPanic = true
		}
		for _, l := range m.s.P {
			for _, p := range l {
				if p.id == id+i {
					expectPanic = true
				}
			}
		}
	}
	panicked := m.guard("Free", func() { m.f.Free(common.Txid(tx), pg) })
	m.note("Free(tx%d,%d+%d) panicked=%v", tx, id, overflow, panicked)
	if expectPanic {
		if !panicked {
			m.fail("Free(%d+%d) of a meta page or an already free/pending page did not panic", id, overflow)
		}
		return
	}
	if panicked {
		m.fail("Free(tx%d, %d+%d) panicked: %s", tx, id, overflow, m.log[len(m.log)-2])
		return
	}
	delete(m.s.A, id)
	for i := uint64(0); i <= uint64(overflow); i++ {
		m.s.P[tx] = append(m.s.P[tx], pend{id + i, a})
	}
	F, P, _, _, _ := m.export()
	if !eqSet(F, m.s.F) {
		m.fail("Free changed the free set (a freed page must not be directly reusable)")
	}
	if d := eqPend(m.s.P, P); d != "" {
		m.fail("after Free(tx%d,%d+%d): %s", tx, id, overflow, d)
	}
	m.s.P = P
}

func (m *alMon) addReader(r uint64) {
	m.trans++
	m.f.AddReadonlyTXID(common.Txid(r))
	m.s.R = append(m.s.R, r)
	m.note("AddReader(%d)", r)
	m.checkUnchanged("AddReadonlyTXID")
}

func (m *alMon) removeReader(r uint64) {
	m.trans++
	m.f.RemoveReadonlyTXID(common.Txid(r))
	for i, x := range m.s.R {
		if x == r {
			m.s.R = append(m.s.R[:i:i], m.s.R[i+1:]...)
			break
		}
	}
	m.note("RemoveReader(%d)", r)
	m.checkUnchanged("RemoveReadonlyTXID")
}

func (m *alMon) checkUnchanged(what string) {
	F, P, R, _, _ := m.export()
	if !eqSet(F, m.s.F) {
		m.fail("%s changed the free set", what)
	}
	if d := eqPend(m.s.P, P); d != "" {
		m.fail("%s changed the pending sets: %s", what, d)
	}
	a := append([]uint64(nil), m.s.R...)
	sort.Slice(a, func(i, j int) bool { return a[i] < a[j] })
	if fmt.Sprint(a) != fmt.Sprint(R) && !(len(a) == 0 && len(R) == 0) {
		m.fail("%s: registered readers %v, expected %v", what, R, a)
	}
}

// release per specification.
func (m *alMon) release() {
	m.trans++
	before := m.s.clone()
	if m.guard("ReleasePendingPages", func() { m.f.ReleasePendingPages() }) {
		m.fail("ReleasePendingPages panicked: %s", m.log[len(m.log)-1])
		return
	}
	F, P, _, _, _ := m.export()
	m.note("Release readers=%v -> free %v", before.R, sortedIDs(F))
	for id := range before.F {
		if !F[id] {
			m.fail("ReleasePendingPages removed page %d from the free set", id)
		}
	}
	bp := pendSet(before.P)
	ap := pendSet(P)
	for k, a := range bp {
		t, id := k[0], k[1]
		_, still := ap[k]
		if still {
			continue
		}
		if !F[id] {
			m.fail("page %d pending for tx %d vanished (neither pending nor free)", id, t)
			continue
		}
		// moved to free: no registered reader may be able to see it (allocated by a, freed by t: visible to versions a..t-1)
		for _, r := range before.R {
			if r >= a && r < t {
				m.fail("ReleasePendingPages freed page %d (allocated by tx %d, freed by tx %d) although reader %d is registered", id, a, t, r)
			}
		}
	}
	for k, a := range ap {
		if b, ok := bp[k]; !ok || a != b {
			m.fail("ReleasePendingPages created or re-labelled pending page %d of tx %d", k[1], k[0])
		}
	}
	for id := range F {
		if !before.F[id] {
			found := false
			for k := range bp {
				if k[1] == id {
					found = true
				}
			}
			if !found {
				m.fail("page %d became free out of nowhere", id)
			}
		}
	}
	if len(before.R) == 0 && len(ap) != 0 {
		m.fail("with no reader registered %d pages are still pending after ReleasePendingPages", len(ap))
	}
	// adopt
	m.s.F = F
	m.s.P = P
}

// writeImage serialises the list into a page image; D checks the image.
func (m *alMon) writeImage(ps int, id uint64) []byte {
	m.trans++
	n := m.f.EstimatedWritePageSize()/ps + 1
	buf := make([]byte, n*ps)
	pg := common.LoadPage(buf)
	pg.SetId(common.Pgid(id))
	pg.SetOverflow(uint32(n - 1))
	if m.guard("Write", func() { m.f.Write(pg) }) {
		m.fail("Write panicked: %s", m.log[len(m.log)-1])
		return nil
	}
	// independent reading of the page image
	want := map[uint64]bool{}
	for k := range m.s.F {
		want[k] = true
	}
	for _, l := range m.s.P {
		for _, p := range l {
			want[p.id] = true
		}
	}
	count := int(*(*uint16)(unsafe.Pointer(&buf[10])))
	flags := *(*uint16)(unsafe.Pointer(&buf[8]))
	if flags != decode.FlagFreelist {
		m.fail("Write: page flags %#x", flags)
	}
	idx, cnt := 0, count
	if count == 0xFFFF {
		idx = 1
		cnt = int(*(*uint64)(unsafe.Pointer(&buf[16])))
	}
	if cnt != len(want) {
		m.fail("Write: page lists %d ids (count field %#x), free+pending are %d", cnt, count, len(want))
		return buf
	}
	if (len(want) >= 0xFFFF) != (count == 0xFFFF) {
		m.fail("Write: count convention wrong for %d ids (count field %#x)", len(want), count)
	}
	var prev uint64
	for i := 0; i < cnt; i++ {
		v := *(*uint64)(unsafe.Pointer(&buf[16+8*(idx+i)]))
		if !want[v] || (i > 0 && v <= prev) {
			m.fail("Write: id %d at index %d is wrong or out of order", v, i)
			break
		}
		prev = v
	}
	return buf
}

// roundTrip: Write then Read into a fresh instance of either backend: F' = F u P.
func (m *alMon) roundTrip(ps int) {
	img := m.writeImage(ps, 7)
	if img == nil || m.bad != "" {
		return
	}
	want := map[uint64]bool{}
	for k := range m.s.F {
		want[k] = true
	}
	for _, l := range m.s.P {
		for _, p := range l {
			want[p.id] = true
		}
	}
	for _, kind := range []string{"array", "hashmap"} {
		g := newAllocator(kind)
		cp := append([]byte(nil), img...)
		panicked := m.guard("Read", func() { g.Read(common.LoadPage(cp)) })
		if panicked {
			m.fail("Read into a fresh %s instance panicked: %s", kind, m.log[len(m.log)-1])
			return
		}
		st := freelist.VerifExport(g)
		got := map[uint64]bool{}
		for _, id := range st.Free {
			got[uint64(id)] = true
		}
		if !eqSet(got, want) || len(st.Pending) != 0 {
			m.fail("Write (%s) -> Read (%s): %d free ids, expected %d (free+pending)", m.kind, kind, len(got), len(want))
		}
		if g.FreeCount() != len(want) {
			m.fail("Write -> Read (%s): FreeCount %d, expected %d", kind, g.FreeCount(), len(want))
		}
	}
}

// rollbackReload: Rollback(tx) + Reload(image) (or NoSyncReload(scan)) restores the state snap.
func (m *alMon) rollbackReload(tx uint64, img []byte, scan []uint64, snap *alSpec, universe uint64) {
	m.trans++
	if m.guard("Rollback", func() { m.f.Rollback(common.Txid(tx)) }) {
		m.fail("Rollback panicked: %s", m.log[len(m.log)-1])
		return
	}
	if img != nil {
		cp := append([]byte(nil), img...)
		if m.guard("Reload", func() { m.f.Reload(common.LoadPage(cp)) }) {
			m.fail("Reload panicked: %s", m.log[len(m.log)-1])
			return
		}
	} else {
		ids := make(common.Pgids, len(scan))
		for i, v := range scan {
			ids[i] = common.Pgid(v)
		}
		if m.guard("NoSyncReload", func() { m.f.NoSyncReload(ids) }) {
			m.fail("NoSyncReload panicked: %s", m.log[len(m.log)-1])
			return
		}
	}
	m.note("Rollback(tx%d)+Reload", tx)
	F, P, _, _, allocs := m.export()
	if !eqSet(F, snap.F) {
		m.fail("after rolling back tx %d the free set is %v, before the transaction it was %v", tx, sortedIDs(F), sortedIDs(snap.F))
	}
	if d := eqPend(snap.P, P); d != "" {
		m.fail("after rolling back tx %d the pending sets differ from before the transaction: %s", tx, d)
	}
	_ = allocs // which tx allocated a page is bookkeeping that is overwritten by the next Allocate; not observable
	keepR := m.s.R
	m.s = snap.clone()
	m.s.R = keepR
	m.consistent("after rollback", universe)
}

// rollbackOnly: what Tx.Rollback does for a transaction that has not reached Commit.
func (m *alMon) rollbackOnly(tx uint64, snap *alSpec, universe uint64) {
	m.trans++
	if m.guard("Rollback", func() { m.f.Rollback(common.Txid(tx)) }) {
		m.fail("Rollback panicked: %s", m.log[len(m.log)-1])
		return
	}
	m.note("Rollback(tx%d)", tx)
	F, P, _, _, _ := m.export()
	if !eqSet(F, snap.F) {
		m.fail("after Rollback of tx %d (no reload) the free set is %v, before the transaction it was %v", tx, sortedIDs(F), sortedIDs(snap.F))
	}
	if d := eqPend(snap.P, P); d != "" {
		m.fail("after rolling back tx %d (no reload) the pending sets differ from before the transaction: %s", tx, d)
	}
	keepR := m.s.R
	m.s = snap.clone()
	m.s.R = keepR
	m.consistent("after rollback without reload", universe)
}

// ---------------------------------------------------------------- mini database on top of the allocator

// miniDB mirrors how DB uses the allocator and tracks which pages every
// version consists of: the end-to-end meaning of the release rule is that a
// page of a registered reader's version is never handed out.
type miniDB struct {
	m        *alMon
	ps       int
	hwm      uint64
	newest   uint64              // committed txid
	pages    map[uint64][]uint64 // version -> tree pages
	flPage   map[uint64][2]uint64
	readers  []uint64
	image    []byte // freelist page image of the newest version
	sync     bool
	inTx     bool
	tx       uint64
	cur      []uint64
	snap     *alSpec
	snapHwm  uint64
	fresh    []uint64
	universe uint64
}

func newMiniDB(kind string, sync bool) *miniDB {
	d := &miniDB{m: newMon(kind), ps: 64, hwm: 10, newest: 2, pages: map[uint64][]uint64{}, flPage: map[uint64][2]uint64{}, sync: sync, universe: 40}
	// version 2: tree pages 3,5,8 ; freelist page 2 ; free 4,6,7,9
	d.pages[2] = []uint64{3, 5, 8}
	d.flPage[2] = [2]uint64{2, 1}
	ids := common.Pgids{4, 6, 7, 9}
	if !sync {
		ids = common.Pgids{2, 4, 6, 7, 9} // no freelist page without a persisted list
	}
	d.m.f.Init(ids)
	for _, id := range ids {
		d.m.s.F[uint64(id)] = true
	}
	if sync {
		d.image = d.m.writeImage(d.ps, 2)
	}
	return d
}

func (d *miniDB) visible(id uint64) (uint64, bool) {
	vs := append([]uint64{d.newest}, d.readers...)
	for _, v := range vs {
		for _, p := range d.pages[v] {
			if p == id {
				return v, true
			}
		}
		if fp, ok := d.flPage[v]; ok && d.sync && id >= fp[0] && id < fp[0]+fp[1] {
			return v, true
		}
	}
	return 0, false
}

func (d *miniDB) alloc(n int) uint64 {
	p := d.m.allocate(d.tx, n)
	if p == 0 {
		p = d.hwm
		d.hwm += uint64(n)
		return p
	}
	for i := 0; i < n; i++ {
		if v, vis := d.visible(p + uint64(i)); vis {
			d.m.fail("Allocate handed out page %d which belongs to version %d, still visible (newest %d, readers %v)", p+uint64(i), v, d.newest, d.readers)
		}
	}
	return p
}

// op executes one letter of the alphabet; returns false if the letter is not legal now.
func (d *miniDB) op(c byte) bool {
	switch c {
	case 'B': // begin writer
		if d.inTx {
			return false
		}
		d.snap = d.m.s.clone()
		d.snapHwm = d.hwm
		d.m.release()
		d.snap = d.m.s.clone() // the state a rollback must restore is the one after the release at begin
		d.inTx, d.tx = true, d.newest+1
		d.cur = append([]uint64(nil), d.pages[d.newest]...)
		d.fresh = nil
	case '1', '2', '3': // allocate a run of n pages for the tree
		if !d.inTx || len(d.cur) > 7 {
			return false
		}
		n := int(c - '0')
		p := d.alloc(n)
		for i := 0; i < n; i++ {
			d.cur = append(d.cur, p+uint64(i))
			d.fresh = append(d.fresh, p+uint64(i))
		}
	case 'F', 'G': // free the lowest / highest page of the current version that this tx did not allocate itself
		if !d.inTx {
			return false
		}
		var cand []uint64
		for _, p := range d.cur {
			own := false
			for _, f := range d.fresh {
				if f == p {
					own = true
				}
			}
			if !own {
				cand = append(cand, p)
			}
		}
		if len(cand) == 0 {
			return false
		}
		sort.Slice(cand, func(i, j int) bool { return cand[i] < cand[j] })
		p := cand[0]
		if c == 'G' {
			p = cand[len(cand)-1]
		}
		d.m.free(d.tx, p, 0)
		for i, x := range d.cur {
			if x == p {
				d.cur = append(d.cur[:i:i], d.cur[i+1:]...)
				break
			}
		}
	case 'C': // commit
		if !d.inTx {
			return false
		}
		if d.sync {
			old := d.flPage[d.newest]
			d.m.free(d.tx, old[0], uint32(old[1]-1))
			n := d.m.f.EstimatedWritePageSize()/d.ps + 1
			p := d.alloc(n)
			d.image = d.m.writeImage(d.ps, p)
			d.flPage[d.tx] = [2]uint64{p, uint64(n)}
		}
		d.pages[d.tx] = d.cur
		d.newest = d.tx
		d.inTx = false
	case 'X': // rollback
		if !d.inTx {
			return false
		}
		if d.sync {
			d.m.rollbackReload(d.tx, d.image, nil, d.snap, d.universe)
		} else {
			// scan: everything below the hwm that the newest version does not use
			var scan []uint64
			used := map[uint64]bool{}
			for _, p := range d.pages[d.newest] {
				used[p] = true
			}
			for id := uint64(2); id < d.snapHwm; id++ {
				if !used[id] {
					scan = append(scan, id)
				}
			}
			d.m.rollbackReload(d.tx, nil, scan, d.snap, d.universe)
		}
		d.hwm = d.snapHwm
		d.inTx = false
	case 'Y': // rollback by the user before Commit (no allocation has happened yet): Rollback only, no reload
		if !d.inTx || len(d.fresh) > 0 {
			return false
		}
		d.m.rollbackOnly(d.tx, d.snap, d.universe)
		d.hwm = d.snapHwm
		d.inTx = false
	case 'R': // a reader begins at the newest version
		if len(d.readers) >= 2 {
			return false
		}
		d.m.addReader(d.newest)
		d.readers = append(d.readers, d.newest)
	case 'o', 'n': // oldest / newest reader ends
		if len(d.readers) == 0 || (c == 'n' && len(d.readers) < 2) {
			return false
		}
		i := 0
		if c == 'n' {
			i = len(d.readers) - 1
		}
		d.m.removeReader(d.readers[i])
		d.readers = append(d.readers[:i:i], d.readers[i+1:]...)
	default:
		return false
	}
	d.m.consistent("after "+string(c), d.universe)
	return true
}

const c09Alphabet = "B123FGCXYRon"

type c09Args struct {
	Kind   string `json:"kind"`
	Sync   bool   `json:"sync"`
	MaxLen int    `json:"max_len"`
	First  string `json:"first"` // shard: sequences starting with these letters
	Seed   int64  `json:"seed"`
	Random int    `json:"random"`
	Big    bool   `json:"big"`
}

type c09Res struct {
	Kind        string   `json:"kind"`
	Sequences   int      `json:"sequences"`
	Transitions int      `json:"transitions"`
	Bad         []string `json:"bad,omitempty"`
	Sample      string   `json:"sample,omitempty"`
	RandomOps   int      `json:"random_ops"`
	BigIDs      int      `json:"big_ids"`
}

func runSeq(kind string, sync bool, seq string) (*miniDB, bool) {
	d := newMiniDB(kind, sync)
	for i := 0; i < len(seq); i++ {
		if !d.op(seq[i]) {
			return d, false
		}
		if d.m.bad != "" {
			return d, true
		}
	}
	return d, true
}

func childC09(argfile string) {
	var a c09Args
	ReadArgs(argfile, &a)
	res := c09Res{Kind: a.Kind}
	id := fmt.Sprintf("%s-%v-%s", a.Kind, a.Sync, a.First)
	ChildStart(id)
	// exhaustive: all legal sequences up to MaxLen with the given prefix. Sequences are re-run from
	// scratch (the allocator has no snapshot operation); legality pruning keeps the tree small.
	var rec func(seq string)
	rec = func(seq string) {
		if len(res.Bad) >= 3 {
			return
		}
		d, legal := runSeq(a.Kind, a.Sync, seq)
		if !legal {
			return
		}
		res.Sequences++
		res.Transitions += d.m.trans
		if d.m.bad != "" {
			res.Bad = append(res.Bad, fmt.Sprintf("sequence %q (%s, freelist-sync=%v): %s | log: %s", seq, a.Kind, a.Sync, d.m.bad, strings.Join(d.m.log, "; ")))
			return
		}
		if res.Sample == "" && len(seq) == a.MaxLen {
			res.Sample = fmt.Sprintf("%q: %s", seq, strings.Join(d.m.log, "; "))
		}
		if len(seq) >= a.MaxLen {
			return
		}
		for i := 0; i < len(c09Alphabet); i++ {
			rec(seq + string(c09Alphabet[i]))
		}
	}
	if a.MaxLen > 0 {
		rec(a.First)
	}
	// seeded random sequences over a large id universe
	if a.Random > 0 {
		r := rand.New(rand.NewSource(a.Seed))
		for round := 0; round < a.Random && len(res.Bad) < 3; round++ {
			if bad := c09Random(a.Kind, r, &res); bad != "" {
				res.Bad = append(res.Bad, bad)
			}
		}
	}
	if a.Big {
		if bad := c09Big(a.Kind, &res); bad != "" {
			res.Bad = append(res.Bad, bad)
		}
	}
	ChildDone(id, res)
}

// c09Random: 1000 operations over 10^4 ids, direct allocator operations judged by the same monitor.
func c09Random(kind string, r *rand.Rand, res *c09Res) string {
	m := newMon(kind)
	const U = 10000
	var init common.Pgids
	for id := 2; id < U; id++ {
		if r.Intn(3) > 0 {
			init = append(init, common.Pgid(id))
			m.s.F[uint64(id)] = true
		}
	}
	m.f.Init(init)
	used := map[uint64]uint32{} // allocations in use: first id -> overflow
	for id := uint64(2); id < U; id++ {
		if !m.s.F[id] {
			used[id] = 0
		}
	}
	tx := uint64(10)
	var readers []uint64
	for op := 0; op < 1000 && m.bad == ""; op++ {
		res.RandomOps++
		switch x := r.Intn(20); {
		case x < 7:
			n := 1 + r.Intn(4)
			if r.Intn(10) == 0 {
				n = 5 + r.Intn(40)
			}
			if p := m.allocate(tx, n); p != 0 {
				used[p] = uint32(n - 1)
			}
		case x < 13:
			// free an allocation in use that this tx did not allocate
			for id, ov := range used {
				if m.s.A[id] == tx {
					continue
				}
				m.free(tx, id, ov)
				delete(used, id)
				break
			}
		case x < 15:
			tx++
			m.release()
		case x < 17:
			rid := tx - uint64(r.Intn(3))
			m.addReader(rid)
			readers = append(readers, rid)
		case x < 19:
			if len(readers) > 0 {
				i := r.Intn(len(readers))
				m.removeReader(readers[i])
				readers = append(readers[:i:i], readers[i+1:]...)
			}
		default:
			m.roundTrip(4096)
		}
		if op%50 == 0 {
			m.consistent("random op", U)
		}
	}
	res.Transitions += m.trans
	if m.bad != "" {
		n := len(m.log)
		if n > 12 {
			m.log = m.log[n-12:]
		}
		return fmt.Sprintf("random sequence (%s): %s | last ops: %s", kind, m.bad, strings.Join(m.log, "; "))
	}
	return ""
}

// c09Big: serialisation beyond 65534 entries.
func c09Big(kind string, res *c09Res) string {
	for _, n := range []int{65533, 65534, 65535, 65536, 70000} {
		m := newMon(kind)
		ids := make(common.Pgids, 0, n)
		for i := 0; i < n-10; i++ {
			id := uint64(2 + i*2) // fragmented
			ids = append(ids, common.Pgid(id))
			m.s.F[id] = true
		}
		m.f.Init(ids)
		// the last 10 are pending
		for i := 0; i < 10; i++ {
			m.free(5, uint64(1_000_001+2*i), 0)
		}
		m.roundTrip(4096)
		res.BigIDs += n
		res.Transitions += m.trans
		if m.bad != "" {
			return fmt.Sprintf("%d ids (%s): %s", n, kind, m.bad)
		}
	}
	return ""
}

func runC09(c *Ctx) int {
	maxLen := c.Pick(7, 7) // length 8 did not finish within two hours on 5 cores here; the thorough tier deepens the random part instead
	type job struct{ a c09Args }
	var jobs []job
	for _, kind := range backends {
		for _, sync := range []bool{true, false} {
			for i := 0; i < len(c09Alphabet); i++ {
				for j := 0; j < len(c09Alphabet); j++ {
					jobs = append(jobs, job{c09Args{Kind: kind, Sync: sync, MaxLen: maxLen, First: string(c09Alphabet[i]) + string(c09Alphabet[j])}})
				}
			}
		}
		for sh := 0; sh < c.Pick(6, 60); sh++ {
			jobs = append(jobs, job{c09Args{Kind: kind, Seed: c.Seed*17 + 1 + int64(sh)*7907, Random: c.Pick(2, 5)}})
		}
		jobs = append(jobs, job{c09Args{Kind: kind, Big: true}})
	}
	results := make([]c09Res, len(jobs))
	okJob := make([]bool, len(jobs))
	c.Parallel(len(jobs), func(i int) {
		res := c.RunChild("c09", jobs[i].a, 30*time.Minute)
		for _, l := range res.Lines {
			if json.Unmarshal([]byte(l), &results[i]) == nil {
				okJob[i] = true
			}
		}
		if !okJob[i] {
			if res.TimedOut {
				c.Inconclusive("allocator shard watchdog")
			} else {
				rp := c.SaveReplay(fmt.Sprintf("c09-crash-%d.json", i), map[string]any{"args": jobs[i].a, "stderr": res.Stderr})
				c.Report("crash:"+crashKind(res.Stderr), "allocator monitor process died: "+tail(res.Stderr, 1200), rp)
			}
		}
	})
	seqs, trans, rnd, big := 0, 0, 0, 0
	perKind := map[string]int{}
	var samples []string
	for i, r := range results {
		if !okJob[i] {
			continue
		}
		seqs += r.Sequences
		trans += r.Transitions
		rnd += r.RandomOps
		big += r.BigIDs
		perKind[r.Kind] += r.Sequences
		if r.Sample != "" && len(samples) < 3 {
			samples = append(samples, r.Kind+" "+r.Sample)
		}
		for _, b := range r.Bad {
			rp := c.SaveReplay(fmt.Sprintf("c09-%d.json", i), map[string]any{"args": jobs[i].a, "violation": b})
			kind := "spec"
			switch {
			case strings.Contains(b, "although reader"):
				kind = "spec:release-with-reader"
			case strings.Contains(b, "still visible"):
				kind = "spec:visible-page-allocated"
			case strings.Contains(b, "reports none"):
				kind = "spec:run-not-found"
			case strings.Contains(b, "rolling back"):
				kind = "spec:rollback"
			case strings.Contains(b, "Write"):
				kind = "spec:serialise"
			}
			c.Report(kind, b, rp)
		}
	}
	cov := map[string]any{
		"evaluations":            seqs + rnd/1000,
		"distinct_nontrivial":    seqs,
		"rule":                   fmt.Sprintf("bounded-exhaustive: every legal sequence up to length %d over the alphabet {begin-writer(=ReleasePendingPages), allocate run of 1/2/3, free lowest/highest page of the current version, commit(=free old list page + allocate + Write), rollback after a failed commit(=Rollback + Reload / NoSyncReload), user rollback before commit(=Rollback only), reader begins, oldest/newest reader ends} on a mini database (pages 2..9 initially, <=2 readers) for both backends with and without a persisted list; after EVERY operation the exported allocator state (free set, pending per tx with allocating tx, readers, membership cache) is judged against the specification (Allocate: run subset of free, removed exactly, >= 2, 'none' only if no run exists; Free: pending only, never free, double free / meta pages panic; release: free only grows, no moved page visible to a registered reader, empty pending without readers; rollback restores the prior state; Count/FreeCount/PendingCount/Freed/Copyall/EstimatedWritePageSize consistent) and the mini database asserts that no page of a visible version is ever handed out. Plus seeded random sequences of 1000 operations over 10^4 ids with Write->Read round trips into both backends, and round trips of 65533..70000 ids (0xFFFF convention). All enumerated sequences are distinct.", maxLen),
		"samples":                samples,
		"exhaustive":             true,
		"sequences_per_backend":  perKind,
		"transition_checks":      trans,
		"random_operations":      rnd,
		"ids_in_big_round_trips": big,
		"max_sequence_length":    maxLen,
	}
	if len(samples) == 0 {
		cov["samples"] = []string{"(no complete-length sequence ran)"}
	}
	if seqs == 0 {
		c.Inconclusive("no sequence was run")
	}
	return c.Finish("exploration", cov, []string{
		"the specification is the one stated in the property; the allocating transaction of a page is 0 (unknown) after a reload, which makes the release rule conservative, not unsafe",
		"Free of a page allocated by the same transaction is never generated (BBOLT_VERIFY asserts it cannot happen)",
	})
}
