package drivers

import (
	"encoding/json"
	"errors"
	"fmt"
	"math/rand"
	"os"
	"path/filepath"
	"sort"
	"sync"
	"time"

	bolt "go.etcd.io/bbolt"
	berrors "go.etcd.io/bbolt/errors"
	"go.etcd.io/bbolt/verifh/decode"
	"go.etcd.io/bbolt/verifh/exec"
	"go.etcd.io/bbolt/verifh/gen"
	"go.etcd.io/bbolt/verifh/model"
)

// C18 — the data file never grows beyond MaxSize.
//
// A grid of configurations (limit value x page size x initial map size x
// allocation chunk x backend x grow-sync x fill style, plus files that are
// already longer than the limit when opened) is filled until the limit
// rejects a transaction and beyond. Monitors:
//   * file length (stat) after every operation, and every truncate request
//     and write extent seen at the I/O hook, against max(limit, length at open);
//   * the error of a rejected transaction is the size-limit error;
//   * after every rejection: dump == model (the rejected transaction left no
//     trace), Tx.Check silent, D's page accounting of the file exact;
//   * the database stays usable: read, further write attempts (each commits
//     or is rejected with the size-limit error), close, reopen;
//   * "can still be written within the limit" in its unambiguous form: once
//     a delete has committed and its pages were released, a small
//     transaction whose page need is certainly covered by free pages commits.

func init() {
	Drivers["C18"] = runC18
	ChildModes["c18"] = childC18
}

type c18Cfg struct {
	ID         int    `json:"id"`
	PageSize   int    `json:"ps"`
	Limit      int    `json:"limit"`
	LimitKind  string `json:"limit_kind"`
	InitMmap   int    `json:"mmap"`
	AllocSize  int    `json:"alloc"`
	Freelist   string `json:"fl"`
	NoGrowSync bool   `json:"ngs"`
	NoFLSync   bool   `json:"nfs"`
	Style      string `json:"style"` // small | seq | big | mixed | nested
	PreGrow    int    `json:"pregrow"`
	Seed       int64  `json:"seed"`
}

func (c c18Cfg) String() string {
	return fmt.Sprintf("ps=%d limit=%d(%s) mmap=%d alloc=%d fl=%s ngs=%v nfs=%v style=%s pregrow=%d seed=%d",
		c.PageSize, c.Limit, c.LimitKind, c.InitMmap, c.AllocSize, c.Freelist, c.NoGrowSync, c.NoFLSync, c.Style, c.PreGrow, c.Seed)
}

type c18Res struct {
	Cfg          c18Cfg   `json:"cfg"`
	Txs          int      `json:"txs"`
	Commits      int      `json:"commits"`
	Rejections   int      `json:"rejections"`
	MaxLen       int64    `json:"max_len"`
	Bound        int64    `json:"bound"`
	LenAtOpen    int64    `json:"len_at_open"`
	Truncates    int      `json:"truncates"`
	Writes       int      `json:"writes"`
	MustCommit   int      `json:"must_commit"` // unambiguous "writable within the limit" assertions evaluated
	Reopens      int      `json:"reopens"`
	StateChecks  int      `json:"state_checks"`
	Bad          []string `json:"bad,omitempty"`
	BadKind      string   `json:"bad_kind,omitempty"`
	FP           string   `json:"fp"`
	FinalHWMPage uint64   `json:"final_hwm"`
}

type c18Args struct {
	Cfgs []c18Cfg `json:"cfgs"`
	Dir  string   `json:"dir"`
}

func childC18(argfile string) {
	var a c18Args
	ReadArgs(argfile, &a)
	for _, cfg := range a.Cfgs {
		id := fmt.Sprintf("%d", cfg.ID)
		ChildStart(id)
		fmt.Printf("CASE %s\n", cfg)
		ChildDone(id, c18One(cfg, a.Dir))
	}
}

// ioWatch records the largest file extent the database asked for.
type ioWatch struct {
	mu        sync.Mutex
	path      string
	maxTrunc  int64
	maxWrite  int64
	truncates int
	writes    int
}

func (w *ioWatch) install() {
	bolt.SetVerifHooks(&bolt.VerifHooks{Before: func(ev *bolt.VerifIOEvent) error {
		if ev.Path != w.path {
			return nil
		}
		w.mu.Lock()
		switch ev.Op {
		case "truncate":
			w.truncates++
			if ev.Size > w.maxTrunc {
				w.maxTrunc = ev.Size
			}
		case "write":
			w.writes++
			if e := ev.Off + ev.Size; e > w.maxWrite {
				w.maxWrite = e
			}
		}
		w.mu.Unlock()
		return nil
	}})
}

func c18One(cfg c18Cfg, dir string) (res c18Res) {
	res = c18Res{Cfg: cfg}
	bad := func(kind, format string, x ...any) {
		if res.BadKind == "" {
			res.BadKind = kind
		}
		if len(res.Bad) < 5 {
			res.Bad = append(res.Bad, "["+kind+"] "+fmt.Sprintf(format, x...))
		}
	}
	path := filepath.Join(dir, fmt.Sprintf("c18-%d-%d.db", os.Getpid(), cfg.ID))
	defer os.Remove(path)
	r := rand.New(rand.NewSource(cfg.Seed*7919 + int64(cfg.ID)))
	m := model.New()
	seq := 0

	// one transaction body of the chosen style, applied to the model copy and to the real tx
	type op struct {
		bucket string
		sub    string // nested bucket name, "" = none
		key    string
		val    []byte
		del    bool
	}
	mkVal := func(n int) []byte {
		v := gen.V{Seed: r.Uint32(), Len: n}
		return v.Bytes()
	}
	batch := func(style string) []op {
		var ops []op
		ps := cfg.PageSize
		switch style {
		case "small":
			for i := 0; i < 20+r.Intn(60); i++ {
				ops = append(ops, op{bucket: "a", key: fmt.Sprintf("k%06d", r.Intn(1000000)), val: mkVal(20 + r.Intn(80))})
			}
		case "seq":
			for i := 0; i < 30+r.Intn(50); i++ {
				seq++
				ops = append(ops, op{bucket: "s", key: fmt.Sprintf("s%08d", seq), val: mkVal(ps / 8)})
			}
		case "big":
			for i := 0; i < 1+r.Intn(3); i++ {
				seq++
				ops = append(ops, op{bucket: "b", key: fmt.Sprintf("big%06d", seq), val: mkVal(ps + r.Intn(6*ps))})
			}
		case "nested":
			for i := 0; i < 10+r.Intn(30); i++ {
				ops = append(ops, op{bucket: "n", sub: fmt.Sprintf("sub%d", r.Intn(6)), key: fmt.Sprintf("k%05d", r.Intn(100000)), val: mkVal(10 + r.Intn(200))})
			}
		default: // mixed
			for i := 0; i < 10+r.Intn(40); i++ {
				switch r.Intn(10) {
				case 0:
					seq++
					ops = append(ops, op{bucket: "b", key: fmt.Sprintf("big%06d", seq), val: mkVal(ps + r.Intn(4*ps))})
				case 1, 2:
					ops = append(ops, op{bucket: "a", key: fmt.Sprintf("k%06d", r.Intn(3000)), del: true})
				case 3:
					ops = append(ops, op{bucket: "n", sub: fmt.Sprintf("sub%d", r.Intn(4)), key: fmt.Sprintf("k%05d", r.Intn(1000)), val: mkVal(r.Intn(300))})
				default:
					ops = append(ops, op{bucket: "a", key: fmt.Sprintf("k%06d", r.Intn(3000)), val: mkVal(30 + r.Intn(ps/4))})
				}
			}
		}
		return ops
	}
	applyModel := func(mm *model.Bucket, ops []op) {
		for _, o := range ops {
			b := mm.Sub[o.bucket]
			if b == nil {
				mm.CreateBucket(o.bucket)
				b = mm.Sub[o.bucket]
			}
			if o.sub != "" {
				if b.Sub[o.sub] == nil {
					b.CreateBucket(o.sub)
				}
				b = b.Sub[o.sub]
			}
			if o.del {
				b.Delete(o.key)
			} else {
				b.Put(o.key, o.val)
			}
		}
	}
	applyReal := func(tx *bolt.Tx, ops []op) error {
		for _, o := range ops {
			b, err := tx.CreateBucketIfNotExists([]byte(o.bucket))
			if err != nil {
				return err
			}
			if o.sub != "" {
				if b, err = b.CreateBucketIfNotExists([]byte(o.sub)); err != nil {
					return err
				}
			}
			if o.del {
				err = b.Delete([]byte(o.key))
			} else {
				err = b.Put([]byte(o.key), o.val)
			}
			if err != nil {
				return err
			}
		}
		return nil
	}

	// ---- optional: a file that is already longer than the limit when it is opened with the limit
	if cfg.PreGrow > 0 {
		db, err := exec.Open(path, gen.OpenOpts{PageSize: cfg.PageSize, Freelist: cfg.Freelist, NoFreelistSync: cfg.NoFLSync})
		if err != nil {
			bad("harness", "pre-grow open: %v", err)
			return
		}
		for i := 0; i < 400; i++ {
			fi, _ := os.Stat(path)
			if fi != nil && fi.Size() >= int64(cfg.PreGrow) {
				break
			}
			ops := batch("seq")
			if err := db.Update(func(tx *bolt.Tx) error { return applyReal(tx, ops) }); err != nil {
				bad("harness", "pre-grow update: %v", err)
				break
			}
			applyModel(m, ops)
		}
		db.Close()
	}

	w := &ioWatch{path: path}
	w.install()
	defer bolt.SetVerifHooks(nil)

	opts := gen.OpenOpts{PageSize: cfg.PageSize, Freelist: cfg.Freelist, NoFreelistSync: cfg.NoFLSync, NoGrowSync: cfg.NoGrowSync,
		InitialMmapSize: cfg.InitMmap, MaxSize: cfg.Limit, AllocSize: cfg.AllocSize}
	var db *bolt.DB
	var bound int64
	open := func() bool {
		var err error
		db, err = exec.Open(path, opts)
		if err != nil {
			bad("open", "open with the limit failed: %v", err)
			return false
		}
		fi, err := os.Stat(path)
		if err != nil {
			bad("harness", "stat: %v", err)
			return false
		}
		if res.LenAtOpen == 0 {
			res.LenAtOpen = fi.Size()
		}
		// the bound: the limit, or the length the file had when this DB handle was opened if that is larger
		b := int64(cfg.Limit)
		if fi.Size() > b {
			b = fi.Size()
		}
		if bound == 0 || b < bound {
			bound = b
		}
		res.Bound = bound
		return true
	}
	// a brand-new file is created (4 pages) by Open itself; it is "the length at open"
	if !open() {
		return
	}
	defer func() {
		if db != nil {
			func() { defer func() { _ = recover() }(); db.Close() }()
		}
	}()

	checkLen := func(what string) {
		fi, err := os.Stat(path)
		if err != nil {
			return
		}
		if fi.Size() > res.MaxLen {
			res.MaxLen = fi.Size()
		}
		w.mu.Lock()
		mt, mw := w.maxTrunc, w.maxWrite
		res.Truncates, res.Writes = w.truncates, w.writes
		w.mu.Unlock()
		switch {
		case fi.Size() > bound:
			bad("exceeds", "%s: file is %d bytes long, bound max(MaxSize=%d, length at open=%d) = %d", what, fi.Size(), cfg.Limit, res.LenAtOpen, bound)
		case mt > bound:
			bad("exceeds", "%s: the database asked to truncate the file to %d bytes, bound %d", what, mt, bound)
		case mw > bound:
			bad("exceeds", "%s: the database wrote up to offset %d, bound %d", what, mw, bound)
		}
	}
	checkState := func(what string) {
		res.StateChecks++
		err := db.View(func(tx *bolt.Tx) error {
			got, probs := exec.DumpTx(tx, false)
			for _, p := range probs {
				bad("state", "%s: %s", what, p)
			}
			if d := model.DiffDumps(exec.ModelDump(m), got); d != "" {
				bad("state", "%s: content differs from the model: %s", what, d)
			}
			if errs := exec.CheckTx(tx); len(errs) > 0 {
				bad("accounting", "%s: Tx.Check: %s", what, errs[0])
			}
			return nil
		})
		if err != nil {
			bad("unusable", "%s: View failed: %v", what, err)
		}
		if img, err := os.ReadFile(path); err == nil {
			d := decode.Decode(img, decode.Options{})
			if len(d.Errors) > 0 {
				bad("accounting", "%s: independent decoder: %s", what, d.Errors[0])
			} else {
				res.FinalHWMPage = d.Meta.Pgid
				if !cfg.NoFLSync {
					// the allocator must agree with the file: free + pending == unreachable
					if st := db.VerifFreelist(); st != nil {
						n := len(st.Free)
						for _, l := range st.Pending {
							n += len(l)
						}
						if n != len(d.Unreachable()) {
							bad("accounting", "%s: allocator holds %d free+pending ids, the file has %d unreachable pages", what, n, len(d.Unreachable()))
						}
					}
				}
			}
		}
	}
	// one write transaction; returns "ok", "rejected" or "error"
	write := func(what string, ops []op, manual bool) string {
		res.Txs++
		m2 := m.Clone()
		applyModel(m2, ops)
		var err error
		if manual {
			var tx *bolt.Tx
			tx, err = db.Begin(true)
			if err == nil {
				if err = applyReal(tx, ops); err != nil {
					_ = tx.Rollback()
				} else if err = tx.Commit(); err != nil {
					// a failed Commit has already rolled the transaction back
					if rerr := tx.Rollback(); !errors.Is(rerr, berrors.ErrTxClosed) {
						bad("tx-state", "%s: Rollback after a failed Commit returned %v, want tx closed", what, rerr)
					}
				}
			}
		} else {
			err = db.Update(func(tx *bolt.Tx) error { return applyReal(tx, ops) })
		}
		checkLen(what)
		switch {
		case err == nil:
			m = m2
			res.Commits++
			return "ok"
		case errors.Is(err, berrors.ErrMaxSizeReached):
			res.Rejections++
			checkState(what + " (rejected)")
			return "rejected"
		}
		bad("wrong-error", "%s: transaction failed with %v, expected nil or the size-limit error", what, err)
		return "error"
	}

	// ---- phase 1: fill until the first rejection
	maxTx := 600
	rejected := false
	for i := 0; i < maxTx && len(res.Bad) == 0; i++ {
		st := cfg.Style
		out := write(fmt.Sprintf("fill tx %d", i), batch(st), i%7 == 3)
		if out == "rejected" {
			rejected = true
			break
		}
		if out == "error" {
			return
		}
	}
	if len(res.Bad) > 0 {
		return
	}
	// ---- phase 2: the database remains usable
	checkState("after fill")
	if rejected {
		// further attempts: each commits or is rejected, never anything else
		write("small write after rejection", []op{{bucket: "a", key: "probe-small", val: mkVal(10)}}, false)
		write("big write after rejection", []op{{bucket: "b", key: "probe-big", val: mkVal(8 * cfg.PageSize)}}, true)
		// delete a good part of the content, then let the pending pages be released
		var dels []op
		for _, bn := range []string{"a", "s", "b"} {
			if b := m.Sub[bn]; b != nil {
				ks := b.Keys()
				for i, k := range ks {
					if i%2 == 0 && len(dels) < 400 {
						dels = append(dels, op{bucket: bn, key: k, del: true})
					}
				}
			}
		}
		if b := m.Sub["n"]; b != nil {
			for sn, sb := range b.Sub {
				for i, k := range sb.Keys() {
					if i%2 == 0 && len(dels) < 600 {
						dels = append(dels, op{bucket: "n", sub: sn, key: k, del: true})
					}
				}
			}
		}
		if len(dels) > 0 && write("delete half", dels, false) == "ok" {
			write("empty transaction", nil, false) // its begin releases the pages the delete freed
			// unambiguous form of "can still be written within the limit": enough single free pages for a one-key change
			if st := db.VerifFreelist(); st != nil {
				npend := 0
				for _, l := range st.Pending {
					npend += len(l)
				}
				listBytes := 16 + 8*(len(st.Free)+npend+8)
				if len(st.Free) >= 12 && listBytes <= cfg.PageSize {
					res.MustCommit++
					if out := write("one-key write with free pages available", []op{{bucket: "a", key: "within-limit", val: mkVal(16)}}, false); out != "ok" {
						bad("not-writable-within-limit", "with %d free pages a one-key transaction was %s", len(st.Free), out)
					}
				}
			}
		}
		// fill again to a second rejection
		for i := 0; i < 200 && len(res.Bad) == 0; i++ {
			if write(fmt.Sprintf("refill tx %d", i), batch(cfg.Style), i%5 == 1) != "ok" {
				break
			}
		}
		checkState("after refill")
	}
	// ---- phase 3: close, reopen with the same limit, read, write attempt, close; then reopen without a limit
	if err := db.Close(); err != nil {
		bad("unusable", "close: %v", err)
	}
	db = nil
	checkLen("after close")
	if !open() {
		return
	}
	res.Reopens++
	checkState("after reopen")
	write("write after reopen", batch("small"), false)
	checkState("after the write following reopen")
	_ = db.Close()
	db = nil
	checkLen("after second close")
	shape := "no-rejection"
	if res.Rejections > 0 {
		shape = "rejected"
		if res.MustCommit > 0 {
			shape = "rejected+recovered"
		}
	}
	grown := "nogrow"
	if res.MaxLen > res.LenAtOpen {
		grown = "grew"
	}
	res.FP = fmt.Sprintf("ps=%d limit=%s mmap=%d alloc=%d fl=%s ngs=%v style=%s pre=%v %s %s", cfg.PageSize, cfg.LimitKind, cfg.InitMmap, cfg.AllocSize, cfg.Freelist, cfg.NoGrowSync, cfg.Style, cfg.PreGrow > 0, shape, grown)
	return
}

func c18Grid(c *Ctx) []c18Cfg {
	r := rand.New(rand.NewSource(c.Seed*104729 + 18))
	var out []c18Cfg
	styles := []string{"small", "seq", "big", "mixed", "nested"}
	id := 0
	add := func(cfg c18Cfg) {
		cfg.ID = id
		cfg.Seed = c.Seed
		id++
		out = append(out, cfg)
	}
	for _, ps := range []int{1024, 4096, 16384} {
		minLim := 8 * ps // an empty database has 4 pages; below that nothing can be honoured
		type lim struct {
			v    int
			kind string
		}
		var lims []lim
		for _, base := range []int{32 << 10, 64 << 10, 128 << 10, 256 << 10, 512 << 10, 1 << 20} {
			if base < minLim {
				continue
			}
			lims = append(lims, lim{base, "pow2"}, lim{base - 1, "pow2-1"}, lim{base + 1, "pow2+1"}, lim{base + 511, "pow2+511"}, lim{base - 511, "pow2-511"},
				lim{base + base/2, "between"}, lim{base + base/3 + 7, "odd"}, lim{base + ps, "pow2+page"}, lim{base - ps, "pow2-page"})
		}
		lims = append(lims, lim{1<<20 + 64<<10 + 13, "chunk+13"}, lim{2<<20 - ps - 1, "2M-page-1"}, lim{minLim, "min"}, lim{minLim + 1, "min+1"}, lim{12*ps + 100, "12pages+100"})
		for _, l := range lims {
			for _, mm := range []int{0, 64 << 10, 8 << 20, 64 << 20} {
				for _, al := range []int{0, 64 << 10} {
					for _, fl := range backends {
						add(c18Cfg{PageSize: ps, Limit: l.v, LimitKind: l.kind, InitMmap: mm, AllocSize: al, Freelist: fl,
							NoGrowSync: r.Intn(4) == 0, NoFLSync: r.Intn(5) == 0, Style: styles[r.Intn(len(styles))]})
					}
				}
			}
		}
		// files already longer than the limit when opened
		for _, pre := range []int{96 << 10, 300 << 10, 1<<20 + 5} {
			if pre < 6*ps {
				continue
			}
			for _, lv := range []int{pre / 2, pre - 1, pre / 4 * 3} {
				if lv < minLim {
					lv = minLim
				}
				for _, al := range []int{0, 64 << 10} {
					add(c18Cfg{PageSize: ps, Limit: lv, LimitKind: "below-existing-length", InitMmap: []int{0, 8 << 20}[r.Intn(2)], AllocSize: al, Freelist: backends[r.Intn(2)],
						NoGrowSync: r.Intn(4) == 0, Style: styles[r.Intn(len(styles))], PreGrow: pre})
				}
			}
		}
	}
	return out
}

func runC18(c *Ctx) int {
	grid := c18Grid(c)
	if c.Replay != "" {
		var cfg c18Cfg
		b, err := os.ReadFile(c.Replay)
		if err != nil || json.Unmarshal(b, &cfg) != nil {
			fmt.Println("cannot load replay")
			return 2
		}
		r := c18One(cfg, c.Tmp)
		for _, m := range r.Bad {
			fmt.Printf("VIOLATION property=C18 replay=%s\n  %s\n", c.Replay, m)
		}
		if len(r.Bad) > 0 {
			return 1
		}
		fmt.Printf("replay: no violation (%d txs, %d rejections, max length %d, bound %d)\n", r.Txs, r.Rejections, r.MaxLen, r.Bound)
		return 0
	}
	// quick: a seeded sample of the grid that keeps every (page size, limit kind) pair; thorough: the whole grid x 3 workload seeds
	var cfgs []c18Cfg
	if c.Quick() {
		r := rand.New(rand.NewSource(c.Seed + 1818))
		seen := map[string]int{}
		perm := r.Perm(len(grid))
		for _, i := range perm {
			g := grid[i]
			k := fmt.Sprintf("%d/%s/%d", g.PageSize, g.LimitKind, g.InitMmap)
			if seen[k] < 2 || (g.PreGrow > 0 && seen[k] < 4) {
				seen[k]++
				cfgs = append(cfgs, g)
			}
		}
		sort.Slice(cfgs, func(i, j int) bool { return cfgs[i].ID < cfgs[j].ID })
	} else {
		for s := 0; s < 3; s++ {
			for _, g := range grid {
				g.Seed = c.Seed + int64(s)*1000
				g.ID = g.ID + s*len(grid)
				if s > 0 {
					g.Style = []string{"small", "seq", "big", "mixed", "nested"}[(g.ID+s)%5]
				}
				cfgs = append(cfgs, g)
			}
		}
	}
	batch := 6
	nb := (len(cfgs) + batch - 1) / batch
	results := make([][]c18Res, nb)
	c.Parallel(nb, func(bi int) {
		lo, hi := bi*batch, (bi+1)*batch
		if hi > len(cfgs) {
			hi = len(cfgs)
		}
		rem := cfgs[lo:hi]
		for len(rem) > 0 {
			res := c.RunChild("c18", c18Args{Cfgs: rem, Dir: c.Tmp}, time.Duration(180+120*len(rem))*time.Second)
			for _, l := range res.Lines {
				var r c18Res
				if json.Unmarshal([]byte(l), &r) == nil {
					results[bi] = append(results[bi], r)
				}
			}
			unf := res.Unfinished()
			if res.ExitErr == nil && len(unf) == 0 {
				break
			}
			idx := -1
			for i, g := range rem {
				if len(unf) > 0 && fmt.Sprint(g.ID) == unf[0] {
					idx = i
				}
			}
			if idx < 0 {
				c.Inconclusive(fmt.Sprintf("c18 child failed outside a case: %v %s", res.ExitErr, tail(res.Stderr, 300)))
				break
			}
			if res.TimedOut {
				c.Inconclusive("watchdog fired in configuration " + rem[idx].String())
			} else {
				rp := c.SaveReplay(fmt.Sprintf("c18-cfg%d.json", rem[idx].ID), rem[idx])
				c.Report("crash:"+crashKind(res.Stderr), fmt.Sprintf("process died in configuration %s: %s", rem[idx], tail(res.Stderr, 1200)), rp)
			}
			rem = rem[idx+1:]
		}
	})
	fps := map[string]bool{}
	nontriv := map[string]bool{}
	var samples []string
	tot := struct{ cfgs, txs, commits, rej, must, reopens, state, trunc, writes, withRej, pre, grew int }{}
	for _, rs := range results {
		for _, r := range rs {
			tot.cfgs++
			tot.txs += r.Txs
			tot.commits += r.Commits
			tot.rej += r.Rejections
			tot.must += r.MustCommit
			tot.reopens += r.Reopens
			tot.state += r.StateChecks
			tot.trunc += r.Truncates
			tot.writes += r.Writes
			if r.Rejections > 0 {
				tot.withRej++
			}
			if r.Cfg.PreGrow > 0 {
				tot.pre++
			}
			if r.MaxLen > r.LenAtOpen {
				tot.grew++
			}
			if r.FP != "" {
				fps[r.FP] = true
				if r.Rejections > 0 {
					nontriv[r.FP] = true
				}
			}
			if len(samples) < 4 && r.Rejections > 0 && len(r.Bad) == 0 {
				samples = append(samples, fmt.Sprintf("%s: %d txs, %d committed, %d rejected, file grew %d -> %d (bound %d), %d truncate requests, within-limit assertion evaluated %d times",
					r.Cfg, r.Txs, r.Commits, r.Rejections, r.LenAtOpen, r.MaxLen, r.Bound, r.Truncates, r.MustCommit))
			}
			if len(r.Bad) > 0 {
				rp := c.SaveReplay(fmt.Sprintf("c18-cfg%d.json", r.Cfg.ID), r.Cfg)
				c.Report(r.BadKind, fmt.Sprintf("%s: %s", r.Cfg, r.Bad[0]), rp)
			}
		}
	}
	if tot.withRej == 0 || tot.must == 0 {
		c.Inconclusive("no configuration reached a rejection / the within-limit assertion")
	}
	cov := map[string]any{
		"evaluations":                          tot.cfgs,
		"distinct_nontrivial":                  len(nontriv),
		"rule":                                 "grid: page size {1024,4096,16384} x limit {each power of two from 32 KiB to 1 MiB: exact, -1, +1, +511, -511, +/- one page, 1.5x, odd; chunk+13; 2 MiB - page - 1; smallest honourable limit (8 pages) and +1; 12 pages+100} x InitialMmapSize {0, 64 KiB, 8 MiB, 64 MiB} x AllocSize {default, 64 KiB} x backend, with grow-sync / freelist-sync / fill style (small random keys, ascending keys, multi-page values, mixed with deletes, nested buckets) drawn per configuration, plus files pre-grown beyond the limit before being opened with it. quick = two seeded configurations per (page size, limit kind, initial map size) and 4 per pre-grown class; thorough = whole grid x 3 workload seeds. Each configuration: fill until rejected (<= 600 txs), write attempts after the rejection, delete half + release, refill to a second rejection, close, reopen, write, close. Monitors: stat length after every operation and every truncate request / write extent at the I/O hook <= max(limit, length at open); error class; dump == model, Tx.Check, D accounting and allocator export after every rejection; within-limit assertion when >= 12 free pages. Non-trivial: at least one rejection; distinct = configuration fingerprint incl. outcome shape.",
		"samples":                              samples,
		"configurations_with_rejection":        tot.withRej,
		"transactions":                         tot.txs,
		"committed":                            tot.commits,
		"rejected_with_size_limit_error":       tot.rej,
		"state_and_accounting_checks":          tot.state,
		"within_limit_assertions_evaluated":    tot.must,
		"reopens":                              tot.reopens,
		"truncate_requests_seen":               tot.trunc,
		"write_events_seen":                    tot.writes,
		"configurations_pregrown_beyond_limit": tot.pre,
		"configurations_where_file_grew":       tot.grew,
		"grid_size":                            len(grid),
		"distinct_fingerprints_all":            len(fps),
	}
	return c.Finish("exploration", cov, []string{
		"limits below 8 pages are not generated (an empty database already has 4 pages and its first transaction needs more)",
		"'can still be written within the limit' is asserted only when at least 12 single free pages exist and the free list fits one page; otherwise a further rejection is accepted",
		"the bound is max(MaxSize, file length when the handle was opened), as the property states",
	})
}
