package drivers

import (
	"os"
	"strings"

	"go.etcd.io/bbolt/verifh/exec"
	"go.etcd.io/bbolt/verifh/gen"
)

func init() { Drivers["C05"] = runC05 }

func cursorPrograms(seed int64, n int) []*gen.Program {
	var out []*gen.Program
	for i := 0; i < n; i++ {
		ps := []int{1024, 4096, 1024, 2048}[(i/8)%4]
		o := gen.OpenOpts{Freelist: backends[(i/32)%2]}
		out = append(out, gen.GenerateCursor(seed, i, ps, o))
	}
	return out
}

func runC05(c *Ctx) int {
	mon := exec.Monitors{API: true, Dumps: true, DeepDump: true}
	const budget = 1_000_000 // logical steps of one cursor; buckets here have <= 2500 keys
	if c.Replay != "" {
		return c.replayAPI(mon, budget)
	}
	n := c.Pick(480, 24000)
	progs := cursorPrograms(c.Seed, n)
	// plus the general programs' cursor walks inside dirty transactions
	progs = append(progs, apiPrograms(c.Seed+7, c.Pick(160, 8000), []string{"cursor", "structural"}, func(i int, cfg *gen.Config) { cfg.Txs = 6 })...)
	classify := func(v exec.Violation) string {
		if v.Kind == "panic" && strings.Contains(v.Msg, "cursor step budget") {
			return "cursor-hang"
		}
		return v.Kind
	}
	agg := c.runPrograms(progs, mon, c.Pick(16, 100), budget, func(cs *apiCase) bool {
		return cs.Stats.CursorCalls >= 50 && cs.Stats.Transitions["range-delete"] > 0
	}, classify)
	cov := agg.coverage("bucket states of 0/1/3/12/60/250/900/2500 keys (single leaf to 3-level trees, nested buckets among the keys) x page sizes 1024/2048/4096; in a write transaction whole key ranges (front, middle, end, everything, one leaf's worth) are deleted and keys put, then complete forward and backward scans (incl. stepping back after running off either end) and 12 seeded sequences of 1..40 First/Last/Next/Prev/Seek calls are compared call by call with a sorted list with a position; repeated after commit in a read transaction. Non-trivial: >= 50 compared cursor calls and >= 1 range delete in a dirty transaction; distinct = structural fingerprint. A cursor exceeding 10^6 internal loop steps panics (logical-step hang verdict).")
	if bin := os.Getenv("VCHECK_CHECKPTR"); bin != "" {
		c.ChildBin = bin
		sub := cursorPrograms(c.Seed+3, c.Pick(64, 2000))
		agg2 := c.runPrograms(sub, mon, c.Pick(8, 100), budget, func(cs *apiCase) bool { return true }, classify)
		cov["checkptr_pass_programs"] = agg2.Cases
		c.ChildBin = ""
	}
	if agg.CursorCalls == 0 {
		c.Inconclusive("no cursor call was compared")
	}
	return c.Finish("exploration", cov, []string{
		"oracle: a sorted list with a position (harness/model Cursor); Seek past the end leaves the position at 'end'",
		"cursors are re-created after every mutation (documented requirement); an un-positioned cursor is never moved",
		"hang verdict by the verifCursorStep hook (logical steps), never by wall clock",
	})
}
