package drivers

import (
	"bufio"
	"encoding/json"
	"fmt"
	"math/rand"
	"os"
	osexec "os/exec"
	"path/filepath"
	"strings"
	"syscall"
	"time"

	"go.etcd.io/bbolt/verifh/exec"
	"go.etcd.io/bbolt/verifh/gen"
)

// C01, second part: real process death. The crash images of the first part
// are simulated from the hook trace; here a child process that runs a
// history with NO hooks installed kills itself with SIGKILL at a seeded point
// (a timer goroutine started when the n-th commit attempt is announced fires
// 0..3 ms into that commit). What the kernel then holds is whatever the process had issued:
// the "process dies at any instant" half of the property, observed for real.
// The child announces "TRY n" before and "ACK n" after every commit, so the
// parent knows the last acknowledged commit k; the file must recover (open,
// dump, Tx.Check, D, one more transaction, reopen - the same judge as for the
// simulated images) to exactly the model state after commit k or after
// commit k+1, nothing else.

func init() { ChildModes["c01kill"] = childC01Kill }

type c01KillArgs struct {
	Prog      string `json:"prog"`
	DB        string `json:"db"`
	KillAtTry int    `json:"kill_at_try"`
	DelayUS   int    `json:"delay_us"`
}

func childC01Kill(argfile string) {
	var a c01KillArgs
	ReadArgs(argfile, &a)
	p, err := loadProgram(a.Prog)
	if err != nil {
		fmt.Fprintln(os.Stderr, err)
		os.Exit(3)
	}
	r := exec.NewRunner(a.DB, exec.Monitors{})
	n := 0
	out := bufio.NewWriter(os.Stdout)
	say := func(s string) { fmt.Fprintln(out, s); out.Flush() }
	r.OnStep = func(r *exec.Runner, i int, s *gen.Step) {
		if s.Op == "commit" && r.Tx != nil && r.Tx.Writable() {
			say(fmt.Sprintf("TRY %d", n+1))
			if n+1 == a.KillAtTry {
				// the process kills itself a seeded number of microseconds into this commit (a timer in another
				// goroutine - nothing is hooked into the code under test)
				d := time.Duration(a.DelayUS) * time.Microsecond
				go func() {
					if d > 0 {
						time.Sleep(d)
					}
					_ = syscall.Kill(os.Getpid(), syscall.SIGKILL)
				}()
				if d == 0 {
					time.Sleep(time.Millisecond) // the signal is on its way before the commit starts
				}
			}
		}
	}
	r.AfterCommit = func(r *exec.Runner) {
		n++
		say(fmt.Sprintf("ACK %d", n))
	}
	if v := r.Run(p); len(v) > 0 {
		say("VIOL " + v[0].String())
	}
	say("END")
}

// modelVersions returns the dump of the model after 0, 1, 2, ... commits of the program.
func modelVersions(p *gen.Program) [][]string {
	sim := gen.NewSim()
	out := [][]string{exec.ModelDump(sim.Committed)}
	for i := range p.Steps {
		st := &p.Steps[i]
		wasW := sim.InTx && sim.Writable
		sim.Apply(st)
		if st.Op == "commit" && wasW {
			out = append(out, exec.ModelDump(sim.Committed))
		}
	}
	return out
}

type killOutcome struct {
	acked, tried int
	which        string // "A" (state after the last acknowledged commit) or "I" (in-flight one present)
	problem      string
	inconclusive string
	ended        bool
}

func (c *Ctx) killOnce(p *gen.Program, progFile string, idx int, killAtTry int, delay time.Duration) (o killOutcome) {
	self, _ := os.Executable()
	dir := filepath.Join(c.Tmp, fmt.Sprintf("kill-%d", idx))
	_ = os.MkdirAll(dir, 0700)
	defer os.RemoveAll(dir)
	db := filepath.Join(dir, "killed.db")
	af := filepath.Join(dir, "args.json")
	ab, _ := json.Marshal(c01KillArgs{Prog: progFile, DB: db, KillAtTry: killAtTry, DelayUS: int(delay / time.Microsecond)})
	_ = os.WriteFile(af, ab, 0600)
	cmd := osexec.Command(self, "child", "c01kill", af)
	cmd.Env = append(os.Environ(), "BBOLT_VERIFY=all")
	stdout, _ := cmd.StdoutPipe()
	if err := cmd.Start(); err != nil {
		o.inconclusive = err.Error()
		return
	}
	lines := make(chan string, 1024)
	go func() {
		sc := bufio.NewScanner(stdout)
		for sc.Scan() {
			lines <- sc.Text()
		}
		close(lines)
	}()
	watch := time.After(5 * time.Minute)
loop:
	for {
		select {
		case l, ok := <-lines:
			if !ok {
				break loop
			}
			var n int
			switch {
			case strings.HasPrefix(l, "TRY "):
				fmt.Sscanf(l, "TRY %d", &n)
				o.tried = n
			case strings.HasPrefix(l, "ACK "):
				fmt.Sscanf(l, "ACK %d", &n)
				o.acked = n
			case strings.HasPrefix(l, "VIOL "):
				o.inconclusive = "history itself failed: " + l
			case l == "END":
				o.ended = true
			}
		case <-watch:
			_ = cmd.Process.Kill()
			o.inconclusive = "watchdog"
			break loop
		}
	}
	_ = cmd.Wait()
	if o.inconclusive != "" {
		return
	}
	img, err := os.ReadFile(db)
	if err != nil {
		if o.acked == 0 {
			return // killed before the file existed
		}
		o.problem = fmt.Sprintf("data file unreadable after the kill: %v", err)
		return
	}
	versions := modelVersions(p)
	if o.acked >= len(versions) {
		o.inconclusive = fmt.Sprintf("child acknowledged %d commits, the model has %d", o.acked, len(versions)-1)
		return
	}
	fl := "array"
	if p.Steps[0].Opts != nil && p.Steps[0].Opts.Freelist != "" {
		fl = p.Steps[0].Opts.Freelist
	}
	judge := filepath.Join(dir, "judge.db")
	if o.acked == 0 && len(img) == 0 {
		return
	}
	probsA := judgeImage(img, judge, versions[o.acked], fl)
	if len(probsA) == 0 {
		o.which = "A"
		return
	}
	if o.acked+1 < len(versions) {
		if probsI := judgeImage(img, judge, versions[o.acked+1], fl); len(probsI) == 0 {
			o.which = "I"
			return
		}
	}
	if o.acked == 0 && o.tried <= 1 {
		// killed while the brand-new file was being initialised or before its first commit: excluded by the documentation
		// unless the file is a complete database
		if strings.Contains(strings.Join(probsA, " "), "open after crash") {
			o.which = "init"
			return
		}
	}
	o.problem = fmt.Sprintf("after SIGKILL (last acknowledged commit %d, attempt %d announced) the file recovers neither to the state after commit %d nor to the one after commit %d: %s", o.acked, o.tried, o.acked, o.acked+1, strings.Join(probsA, "; "))
	return
}

// killRuns performs n real kills and reports into cov.
func (c *Ctx) killRuns(n int, cov map[string]any) {
	progs := c01Programs(c.Seed+650, 1)
	r := rand.New(rand.NewSource(c.Seed + 6500))
	dir := filepath.Join(c.Tmp, "killprogs")
	_ = os.MkdirAll(dir, 0700)
	files := make([]string, len(progs))
	ncommits := make([]int, len(progs))
	for i, p := range progs {
		files[i] = filepath.Join(dir, fmt.Sprintf("C01-kill-%s-seed%d-case%d.json", p.Name, p.Seed, p.Case))
		b, _ := json.Marshal(p)
		_ = os.WriteFile(files[i], b, 0600)
		ncommits[i] = len(modelVersions(p)) - 1
	}
	type job struct {
		pi, at int
		delay  time.Duration
	}
	var jobs []job
	for k := 0; k < n; k++ {
		pi := r.Intn(len(progs))
		if ncommits[pi] == 0 {
			continue
		}
		jobs = append(jobs, job{pi, 1 + r.Intn(ncommits[pi]), time.Duration(r.Intn(3000)) * time.Microsecond})
	}
	outs := make([]killOutcome, len(jobs))
	c.Parallel(len(jobs), func(i int) {
		outs[i] = c.killOnce(progs[jobs[i].pi], files[jobs[i].pi], i, jobs[i].at, jobs[i].delay)
	})
	tally := map[string]int{}
	var sample string
	for i, o := range outs {
		switch {
		case o.inconclusive != "":
			tally["inconclusive"]++
			if tally["inconclusive"] > len(jobs)/4 {
				c.Inconclusive("real-kill runs: " + o.inconclusive)
			}
		case o.problem != "":
			rp := c.SaveReplay(fmt.Sprintf("C01-kill-%d.json", i), map[string]any{"prog": progs[jobs[i].pi], "kill_at_try": jobs[i].at, "delay_us": jobs[i].delay.Microseconds(), "what": o.problem})
			c.Report("kill", fmt.Sprintf("%s: %s", filepath.Base(files[jobs[i].pi]), o.problem), rp)
		case o.ended && o.which == "A":
			tally["finished-before-kill"]++
		default:
			tally["killed->"+o.which]++
			if sample == "" && o.which == "I" {
				sample = fmt.Sprintf("%s killed %v after announcing commit attempt %d (last ACK %d): recovered to the in-flight state", filepath.Base(files[jobs[i].pi]), jobs[i].delay, jobs[i].at, o.acked)
			}
		}
	}
	cov["real_kill_runs"] = len(jobs)
	cov["real_kill_outcomes"] = tally
	if sample != "" {
		cov["real_kill_sample"] = sample
	}
}
