package drivers

import (
	"bytes"
	"crypto/sha256"
	"encoding/json"
	"fmt"
	"math/rand"
	"os"
	osexec "os/exec"
	"path/filepath"
	"regexp"
	"sort"
	"strings"
	"time"

	bolt "go.etcd.io/bbolt"
	"go.etcd.io/bbolt/verifh/decode"
	"go.etcd.io/bbolt/verifh/exec"
	"go.etcd.io/bbolt/verifh/gen"
	"go.etcd.io/bbolt/verifh/model"
)

// C15 — compaction preserves content (library function and CLI).
//
// Sources are built by running generated programs (and hand-shaped "deep"
// programs) through the executor, which also gives the model M of the
// source. Every source is compacted under a list of transaction-size limits
// (fixed small ones, the CLI default, and limits derived from the source so
// that an intermediate commit falls inside a nested bucket), in-process and
// through the freshly built command-line tool. Oracles: destination dump ==
// source dump == M (buckets, nesting, keys, values, sequences), Tx.Check and
// the independent decoder D are clean on the destination, the source file's
// SHA-256 is unchanged, the CLI's exit status matches the outcome.

func init() {
	Drivers["C15"] = runC15
	ChildModes["c15"] = childC15
}

type c15Args struct {
	Progs  []string `json:"progs"`
	Dir    string   `json:"dir"`
	Bbolt  string   `json:"bbolt"`
	Seed   int64    `json:"seed"`
	NLim   int      `json:"nlim"`   // derived + fixed limits per source
	CLIPer int      `json:"cliper"` // how many of the limits also go through the CLI
}

type c15Res struct {
	File        string         `json:"file"`
	Skipped     string         `json:"skipped,omitempty"`
	Compactions int            `json:"compactions"`
	CLIRuns     int            `json:"cli_runs"`
	NegProbes   int            `json:"neg_probes"`
	FPs         map[string]int `json:"fps"`
	NonTrivial  []string       `json:"nontrivial"`
	Bad         []c15Bad       `json:"bad,omitempty"`
	Sample      string         `json:"sample,omitempty"`
	MultiCommit int            `json:"multi_commit"`
	NestedSplit int            `json:"nested_split"`
	Keys        int            `json:"keys"`
	Buckets     int            `json:"buckets"`
}

type c15Bad struct {
	Kind  string `json:"kind"`
	Msg   string `json:"msg"`
	Limit int64  `json:"limit"`
	Via   string `json:"via"`
}

// deepProgram builds a hand-shaped source: nesting depth up to 6, empty
// buckets, empty and multi-page values, inline and paged buckets, non-zero
// sequences at every level.
func deepProgram(seed int64, caseNo int, pageSize int, opts gen.OpenOpts) *gen.Program {
	r := rand.New(rand.NewSource(seed*1000003 + int64(caseNo)*7919 + 15))
	p := &gen.Program{Name: "deep", Seed: seed, Case: caseNo}
	opts.PageSize = pageSize
	add := func(st gen.Step) { p.Steps = append(p.Steps, st) }
	add(gen.Step{Op: "open", Opts: &opts})
	add(gen.Step{Op: "begin", W: true})
	seqs := []uint64{1, 7, 1 << 32, 1<<63 - 1, 1<<64 - 1}
	var fill func(path []int, depth int)
	fill = func(path []int, depth int) {
		// sequence
		if r.Intn(3) > 0 {
			add(gen.Step{Op: "setSeq", P: path, U: seqs[r.Intn(len(seqs))] + uint64(r.Intn(5))})
		}
		// keys: none (empty bucket), a few (inline) or many (paged)
		var nk int
		switch r.Intn(4) {
		case 0:
			nk = 0
		case 1:
			nk = 1 + r.Intn(4)
		case 2:
			nk = 10 + r.Intn(40)
		default:
			nk = 60 + r.Intn(200)
		}
		for i := 0; i < nk; i++ {
			v := &gen.V{Seed: r.Uint32(), Len: r.Intn(48)}
			switch r.Intn(12) {
			case 0:
				v = &gen.V{Len: 0}
			case 1:
				v = &gen.V{Nil: true}
			case 2:
				v = &gen.V{Seed: r.Uint32(), Len: pageSize + r.Intn(3*pageSize)}
			case 3:
				v = &gen.V{Seed: r.Uint32(), Len: pageSize / 3}
			}
			add(gen.Step{Op: "put", P: path, K: &gen.K{ID: r.Intn(400)}, V: v})
		}
		if depth >= 6 {
			return
		}
		nsub := r.Intn(3)
		if depth < 3 {
			nsub = 1 + r.Intn(3)
		}
		used := map[int]bool{}
		for i := 0; i < nsub; i++ {
			n := r.Intn(8)
			if used[n] {
				continue
			}
			used[n] = true
			add(gen.Step{Op: "create", P: path, N: n})
			fill(append(append([]int{}, path...), n), depth+1)
		}
	}
	nroot := 1 + r.Intn(4)
	used := map[int]bool{}
	for i := 0; i < nroot; i++ {
		n := r.Intn(8)
		if used[n] {
			continue
		}
		used[n] = true
		add(gen.Step{Op: "create", N: n})
		fill([]int{n}, 1)
	}
	add(gen.Step{Op: "commit"})
	// a second transaction removes a little so that the source has free pages
	add(gen.Step{Op: "begin", W: true})
	for n := range used {
		add(gen.Step{Op: "delRange", P: []int{n}, K: &gen.K{ID: 0}, K2: &gen.K{ID: 50 + r.Intn(100), Len: 40}})
		break
	}
	add(gen.Step{Op: "commit"})
	add(gen.Step{Op: "close"})
	return p
}

// twinProgram builds sources in which buckets of the same name sit at the same depth under different
// parents, with and without plain keys of the parent visited between them in walk order (names sort before
// "k....", "zz\xff" after), twins that are empty, inline or paged, and twins at two levels. A compaction
// that identifies a destination bucket by anything less than its full path mixes them up.
func twinProgram(seed int64, caseNo int, pageSize int, opts gen.OpenOpts) *gen.Program {
	r := rand.New(rand.NewSource(seed*1000003 + int64(caseNo)*7919 + 151))
	p := &gen.Program{Name: "twins", Seed: seed, Case: caseNo}
	opts.PageSize = pageSize
	add := func(st gen.Step) { p.Steps = append(p.Steps, st) }
	add(gen.Step{Op: "open", Opts: &opts})
	add(gen.Step{Op: "begin", W: true})
	kid := 0
	fillKeys := func(path []int, n int) {
		for i := 0; i < n; i++ {
			kid++
			vl := r.Intn(40)
			if r.Intn(15) == 0 {
				vl = pageSize + r.Intn(pageSize)
			}
			add(gen.Step{Op: "put", P: path, K: &gen.K{ID: kid}, V: &gen.V{Seed: r.Uint32(), Len: vl}})
		}
	}
	sizes := []int{0, 1, 3, 30, 150}
	// child names: indices 3,4 sort before plain keys ("b3","b4" < "k0001"), 7 ("zz\xff") after them
	childSets := [][]int{{3}, {3, 4}, {7}, {3, 7}, {4, 7}}
	nparents := 2 + r.Intn(3)
	cs := childSets[r.Intn(len(childSets))]
	for pi := 0; pi < nparents; pi++ {
		parent := []int{pi}
		add(gen.Step{Op: "create", N: pi})
		if r.Intn(2) == 0 {
			add(gen.Step{Op: "setSeq", P: parent, U: uint64(100 + pi)})
		}
		// plain keys of the parent: none, a few
		if r.Intn(3) == 0 {
			fillKeys(parent, 1+r.Intn(4))
		}
		for _, cn := range cs {
			if r.Intn(5) == 0 {
				continue // this parent lacks that twin
			}
			child := append(append([]int{}, parent...), cn)
			add(gen.Step{Op: "create", P: parent, N: cn})
			if r.Intn(2) == 0 {
				add(gen.Step{Op: "setSeq", P: child, U: uint64(1000*pi + cn)})
			}
			fillKeys(child, sizes[r.Intn(len(sizes))])
			// second level twins
			if r.Intn(2) == 0 {
				gc := append(append([]int{}, child...), 5)
				add(gen.Step{Op: "create", P: child, N: 5})
				fillKeys(gc, sizes[r.Intn(len(sizes))])
				if r.Intn(2) == 0 {
					add(gen.Step{Op: "setSeq", P: gc, U: uint64(r.Intn(1 << 20))})
				}
			}
		}
	}
	add(gen.Step{Op: "commit"})
	add(gen.Step{Op: "close"})
	return p
}

// walkSizes lists, in Compact's walk order, len(k)+len(v) of every item and its bucket depth.
func walkSizes(b *model.Bucket, depth int, out *[][2]int) {
	for _, k := range b.Keys() {
		if sub, ok := b.Sub[k]; ok {
			*out = append(*out, [2]int{len(k), depth})
			walkSizes(sub, depth+1, out)
			continue
		}
		*out = append(*out, [2]int{len(k) + len(b.KV[k]), depth})
	}
}

func modelFeatures(b *model.Bucket, depth int, f map[string]int) {
	if depth > f["depth"] {
		f["depth"] = depth
	}
	if depth > 0 {
		f["buckets"]++
		if len(b.KV) == 0 && len(b.Sub) == 0 {
			f["empty-bucket"]++
		}
		if b.Seq != 0 {
			f["seq"]++
			if depth > 1 {
				f["nested-seq"]++
			}
		}
	}
	for _, v := range b.KV {
		f["keys"]++
		if len(v) == 0 {
			f["empty-val"]++
		}
	}
	for _, s := range b.Sub {
		modelFeatures(s, depth+1, f)
	}
}

var compactOut = regexp.MustCompile(`^\d+ -> \d+ bytes \(gain=[0-9.]+x\)\s*$`)

func sha(b []byte) string { return fmt.Sprintf("%x", sha256.Sum256(b)) }

func childC15(argfile string) {
	var a c15Args
	ReadArgs(argfile, &a)
	for i, f := range a.Progs {
		id := fmt.Sprintf("%d", i)
		ChildStart(id)
		ChildDone(id, c15One(&a, i, f))
	}
}

func c15One(a *c15Args, idx int, progFile string) (res c15Res) {
	res = c15Res{File: progFile, FPs: map[string]int{}}
	bad := func(kind string, limit int64, via string, format string, x ...any) {
		if len(res.Bad) < 6 {
			res.Bad = append(res.Bad, c15Bad{Kind: kind, Msg: fmt.Sprintf(format, x...), Limit: limit, Via: via})
		}
	}
	p, err := loadProgram(progFile)
	if err != nil {
		res.Skipped = err.Error()
		return
	}
	src := filepath.Join(a.Dir, fmt.Sprintf("c15-src-%d-%d.db", os.Getpid(), idx))
	defer os.Remove(src)
	r := exec.NewRunner(src, exec.Monitors{})
	if v := r.Run(p); len(v) > 0 {
		res.Skipped = "source program failed: " + v[0].String()
		return
	}
	m := r.Sim.Committed
	want := exec.ModelDump(m)
	srcImg, err := os.ReadFile(src)
	if err != nil {
		res.Skipped = err.Error()
		return
	}
	srcSHA := sha(srcImg)
	srcOpts := gen.OpenOpts{}
	if len(p.Steps) > 0 && p.Steps[0].Opts != nil {
		srcOpts = *p.Steps[0].Opts
	}
	// the source as the API shows it (read-only) must be what the model says; otherwise this is not C15's business
	{
		db, err := exec.Open(src, gen.OpenOpts{ReadOnly: true})
		if err != nil {
			res.Skipped = "source does not open: " + err.Error()
			return
		}
		var got []string
		_ = db.View(func(tx *bolt.Tx) error { got, _ = exec.DumpTx(tx, false); return nil })
		db.Close()
		if d := model.DiffDumps(want, got); d != "" {
			res.Skipped = "source differs from the model (C04's domain): " + d
			return
		}
	}
	feat := map[string]int{}
	modelFeatures(m, 0, feat)
	res.Keys, res.Buckets = feat["keys"], feat["buckets"]
	sd := decode.Decode(srcImg, decode.Options{})
	srcShape := fmt.Sprintf("depth=%d emptyB=%v emptyV=%v nseq=%v inline=%v ovf=%v paged=%v",
		feat["depth"], feat["empty-bucket"] > 0, feat["empty-val"] > 0, feat["nested-seq"] > 0, sd.InlineN > 0, sd.OverflowN > 0, sd.BucketN > sd.InlineN)

	// limits
	var sizes [][2]int
	walkSizes(m, 0, &sizes)
	total := 0
	var nestedCuts []int64
	for _, s := range sizes {
		total += s[0]
		if s[1] >= 2 {
			nestedCuts = append(nestedCuts, int64(total))
		}
	}
	rr := rand.New(rand.NewSource(a.Seed*31 + int64(idx)*977 + int64(len(sizes))))
	limits := []int64{1, 0, 65536, 7, 64, 2, 1 << 20, 4096, 3, 512, 1 << 14}
	var derived []int64
	for i := 0; i < 3 && len(nestedCuts) > 0; i++ {
		derived = append(derived, nestedCuts[rr.Intn(len(nestedCuts))])
	}
	if total > 1 {
		derived = append(derived, int64(total), int64(total-1), int64(total/2+1))
	}
	isDerived := map[int64]bool{}
	for _, d := range derived {
		isDerived[d] = true
	}
	// interleave: derived first (they are the interesting ones), then fixed
	all := append(append([]int64{}, derived...), limits...)
	seen := map[int64]bool{}
	var lims []int64
	for _, l := range all {
		if !seen[l] && len(lims) < a.NLim {
			seen[l] = true
			lims = append(lims, l)
		}
	}

	checkDst := func(dst string, limit int64, via string) (commits uint64) {
		img, err := os.ReadFile(dst)
		if err != nil {
			bad("dst-missing", limit, via, "destination unreadable: %v", err)
			return
		}
		d := decode.Decode(img, decode.Options{})
		if len(d.Errors) > 0 {
			bad("dst-decode", limit, via, "independent decoder on the destination: %s", d.Errors[0])
		} else if diff := model.DiffDumps(want, exec.ModelDump(d.Content)); diff != "" {
			bad("content", limit, via, "destination (decoded by D) differs from the source: %s", diff)
		}
		db, err := exec.Open(dst, gen.OpenOpts{ReadOnly: true})
		if err != nil {
			bad("dst-open", limit, via, "destination does not open: %v", err)
			return
		}
		defer db.Close()
		_ = db.View(func(tx *bolt.Tx) error {
			got, probs := exec.DumpTx(tx, true)
			for _, x := range probs {
				bad("dst-read-paths", limit, via, "%s", x)
			}
			if diff := model.DiffDumps(want, got); diff != "" {
				bad("content", limit, via, "destination differs from the source: %s", diff)
			}
			if errs := exec.CheckTx(tx); len(errs) > 0 {
				bad("dst-check", limit, via, "Tx.Check on the destination: %s", errs[0])
			}
			commits = uint64(tx.ID()) - 1
			return nil
		})
		return
	}
	srcUnchanged := func(limit int64, via string) {
		now, err := os.ReadFile(src)
		if err != nil || sha(now) != srcSHA {
			bad("source-changed", limit, via, "source file changed (err=%v, %d -> %d bytes)", err, len(srcImg), len(now))
			// restore so that later limits are judged on their own
			_ = os.WriteFile(src, srcImg, 0600)
		}
	}
	limClass := func(l int64) string {
		switch {
		case isDerived[l]:
			return "derived"
		case l == 0:
			return "0"
		case l < 16:
			return "tiny"
		case l <= 4096:
			return "small"
		}
		return "large"
	}
	record := func(limit int64, via string, commits uint64) {
		cc := "1"
		if commits > 1 {
			res.MultiCommit++
			cc = "2-5"
			if commits > 5 {
				cc = "6+"
			}
			if feat["depth"] >= 2 {
				res.NestedSplit++
			}
		}
		fp := fmt.Sprintf("%s | limit=%s via=%s commits=%s ps=%d", srcShape, limClass(limit), via, cc, srcOpts.PageSize)
		res.FPs[fp]++
		if feat["depth"] >= 2 && feat["keys"] >= 5 {
			res.NonTrivial = append(res.NonTrivial, fp)
		}
	}

	dstPS := []int{0, srcOpts.PageSize, 1024, 16384}
	for li, limit := range lims {
		// ---- library
		dst := filepath.Join(a.Dir, fmt.Sprintf("c15-dst-%d-%d-%d.db", os.Getpid(), idx, li))
		fmt.Printf("CASE lib limit=%d src=%s\n", limit, filepath.Base(progFile))
		func() {
			defer os.Remove(dst)
			sro := srcOpts.NoFreelistSync || li%2 == 0 // opening a no-freelist-sync file read-write legitimately rewrites its freelist
			sdb, err := exec.Open(src, gen.OpenOpts{ReadOnly: sro, Freelist: srcOpts.Freelist})
			if err != nil {
				bad("src-open", limit, "lib", "source does not open: %v", err)
				return
			}
			ddb, err := exec.Open(dst, gen.OpenOpts{PageSize: dstPS[(li+idx)%len(dstPS)], Freelist: backends[(li+idx)%2], NoFreelistSync: (li+idx)%5 == 0})
			if err != nil {
				sdb.Close()
				bad("dst-open", limit, "lib", "destination does not open: %v", err)
				return
			}
			err = bolt.Compact(ddb, sdb, limit)
			ddb.Close()
			sdb.Close()
			if err != nil {
				bad("compact-error", limit, "lib", "Compact returned %v", err)
				return
			}
			res.Compactions++
			commits := checkDst(dst, limit, "lib")
			srcUnchanged(limit, "lib")
			record(limit, "lib", commits)
			if res.Sample == "" {
				res.Sample = fmt.Sprintf("%s: %d keys in %d buckets (%s), limit %d -> %d commits in the destination", filepath.Base(progFile), feat["keys"], feat["buckets"], srcShape, limit, commits)
			}
		}()
		// ---- command-line tool
		if a.Bbolt != "" && li < a.CLIPer {
			dst := filepath.Join(a.Dir, fmt.Sprintf("c15-cli-%d-%d-%d.db", os.Getpid(), idx, li))
			fmt.Printf("CASE cli limit=%d src=%s\n", limit, filepath.Base(progFile))
			func() {
				defer os.Remove(dst)
				out, code, terr := runCLI(a.Bbolt, 120*time.Second, "compact", "-o", dst, "--tx-max-size", fmt.Sprint(limit), src)
				if terr != nil {
					res.Skipped = "cli watchdog: " + terr.Error()
					return
				}
				res.CLIRuns++
				if code != 0 {
					bad("cli-exit", limit, "cli", "bbolt compact exited %d on a valid source: %s", code, tail(out, 300))
					return
				}
				if !compactOut.MatchString(strings.TrimSpace(lastLine(out))) {
					bad("cli-output", limit, "cli", "unexpected output of a successful compaction: %q", tail(out, 200))
				}
				nb := len(res.Bad)
				commits := checkDst(dst, limit, "cli")
				srcUnchanged(limit, "cli")
				record(limit, "cli", commits)
				_ = nb
			}()
		}
	}
	// ---- the CLI must fail (non-zero, and say so) when it cannot do the job
	if a.Bbolt != "" && idx%4 == 0 {
		dst := filepath.Join(a.Dir, fmt.Sprintf("c15-neg-%d-%d.db", os.Getpid(), idx))
		txt := filepath.Join(a.Dir, fmt.Sprintf("c15-neg-%d-%d.txt", os.Getpid(), idx))
		_ = os.WriteFile(txt, bytes.Repeat([]byte("this is not a database\n"), 2000), 0600)
		defer os.Remove(txt)
		defer os.Remove(dst)
		negs := [][]string{
			{"compact", "-o", dst, filepath.Join(a.Dir, "does-not-exist.db")},
			{"compact", "-o", dst, txt},
			{"compact", "-o", filepath.Join(a.Dir, "no-such-dir", "x.db"), src},
		}
		if len(m.Sub) > 0 {
			// a destination that already holds the source's buckets: Compact itself fails (bucket exists) half-way
			negs = append(negs, []string{"compact", "-o", dst, "--tx-max-size", "1", src, "PRELOAD"})
		}
		for _, neg := range negs {
			os.Remove(dst)
			if neg[len(neg)-1] == "PRELOAD" {
				neg = neg[:len(neg)-1]
				_ = os.WriteFile(dst, srcImg, 0600)
			}
			out, code, terr := runCLI(a.Bbolt, 60*time.Second, neg...)
			if terr != nil {
				continue
			}
			res.NegProbes++
			if code == 0 {
				bad("cli-exit-zero-on-failure", -1, "cli", "bbolt %v exited 0: %s", neg, tail(out, 200))
			}
		}
		srcUnchanged(-1, "cli-neg")
	}
	sort.Strings(res.NonTrivial)
	return
}

func lastLine(s string) string {
	s = strings.TrimRight(s, "\n")
	if i := strings.LastIndexByte(s, '\n'); i >= 0 {
		return s[i+1:]
	}
	return s
}

// runCLI runs the bbolt command-line tool; terr != nil only if the watchdog fired.
func runCLI(bin string, timeout time.Duration, args ...string) (out string, code int, terr error) {
	cmd := osexec.Command(bin, args...)
	var buf bytes.Buffer
	cmd.Stdout = &buf
	cmd.Stderr = &buf
	if err := cmd.Start(); err != nil {
		return err.Error(), -1, err
	}
	done := make(chan error, 1)
	go func() { done <- cmd.Wait() }()
	select {
	case err := <-done:
		if err != nil {
			if ee, ok := err.(*osexec.ExitError); ok {
				return buf.String(), ee.ExitCode(), nil
			}
			return buf.String(), -1, nil
		}
		return buf.String(), 0, nil
	case <-time.After(timeout):
		_ = cmd.Process.Kill()
		<-done
		return buf.String(), -1, fmt.Errorf("bbolt %v exceeded %v", args, timeout)
	}
}

func runC15(c *Ctx) int {
	bin := os.Getenv("VCHECK_BBOLT")
	if bin == "" {
		c.Inconclusive("bbolt CLI binary not built (VCHECK_BBOLT)")
	}
	nGen := c.Pick(48, 800)
	nDeep := c.Pick(24, 400)
	progs := apiPrograms(c.Seed+1500, nGen, []string{"buckets", "mixed", "big", "buckets", "structural", "bigkeys", "manybuckets"}, func(i int, cfg *gen.Config) {
		cfg.Reopen = 0.1
		cfg.ROProbe = 0
		cfg.Rollback = 0.1
		cfg.MaxDepth = 5
		cfg.Txs = 8
	})
	for i := 0; i < nDeep; i++ {
		o := gen.OpenOpts{Freelist: backends[i%2], NoFreelistSync: i%4 == 3}
		progs = append(progs, deepProgram(c.Seed+1501, i, pageSizes[i%len(pageSizes)], o))
	}
	for i := 0; i < c.Pick(16, 300); i++ {
		o := gen.OpenOpts{Freelist: backends[i%2]}
		progs = append(progs, twinProgram(c.Seed+1502, i, pageSizes[i%len(pageSizes)], o))
	}
	if c.Replay != "" {
		a := c15Args{Progs: []string{c.Replay}, Dir: c.Tmp, Bbolt: bin, Seed: c.Seed, NLim: 17, CLIPer: 17}
		r := c15One(&a, 0, c.Replay)
		for _, b := range r.Bad {
			fmt.Printf("VIOLATION property=C15 replay=%s\n  [%s] limit=%d via=%s %s\n", c.Replay, b.Kind, b.Limit, b.Via, b.Msg)
		}
		if len(r.Bad) > 0 {
			return 1
		}
		fmt.Println("replay: no violation", r.Skipped)
		return 0
	}
	dir := filepath.Join(c.Tmp, "progs")
	_ = os.MkdirAll(dir, 0700)
	files := make([]string, len(progs))
	for i, p := range progs {
		files[i] = filepath.Join(dir, fmt.Sprintf("C15-%s-seed%d-case%d.json", p.Name, p.Seed, p.Case))
		b, _ := json.Marshal(p)
		_ = os.WriteFile(files[i], b, 0600)
	}
	batch := c.Pick(3, 20)
	nb := (len(files) + batch - 1) / batch
	results := make([][]c15Res, nb)
	c.Parallel(nb, func(bi int) {
		lo, hi := bi*batch, (bi+1)*batch
		if hi > len(files) {
			hi = len(files)
		}
		rem := files[lo:hi]
		for len(rem) > 0 {
			res := c.RunChild("c15", c15Args{Progs: rem, Dir: c.Tmp, Bbolt: bin, Seed: c.Seed + int64(lo), NLim: c.Pick(8, 17), CLIPer: c.Pick(3, 17)}, time.Duration(120+90*len(rem))*time.Second)
			for _, l := range res.Lines {
				var r c15Res
				if json.Unmarshal([]byte(l), &r) == nil {
					results[bi] = append(results[bi], r)
				}
			}
			unf := res.Unfinished()
			if res.ExitErr == nil && len(unf) == 0 {
				break
			}
			idx := len(res.Finished)
			if len(unf) > 0 {
				fmt.Sscan(unf[0], &idx)
			}
			if idx >= len(rem) {
				c.Inconclusive(fmt.Sprintf("c15 child failed outside a case: %v %s", res.ExitErr, tail(res.Stderr, 300)))
				break
			}
			if res.TimedOut {
				c.Inconclusive("watchdog fired in " + filepath.Base(rem[idx]))
			} else {
				rp := c.keepReplay(rem[idx])
				c.Report("crash:"+crashKind(res.Stderr), fmt.Sprintf("process died while compacting (%s): %s", res.LastLine, tail(res.Stderr, 1200)), rp)
			}
			rem = rem[idx+1:]
		}
	})
	fps := map[string]int{}
	nontriv := map[string]bool{}
	var samples []string
	tot := c15Res{}
	sources, skipped := 0, 0
	for _, rs := range results {
		for _, r := range rs {
			if r.Skipped != "" {
				skipped++
				if skipped <= 3 {
					fmt.Println("note: source skipped:", r.Skipped)
				}
				continue
			}
			sources++
			tot.Compactions += r.Compactions
			tot.CLIRuns += r.CLIRuns
			tot.NegProbes += r.NegProbes
			tot.MultiCommit += r.MultiCommit
			tot.NestedSplit += r.NestedSplit
			tot.Keys += r.Keys
			tot.Buckets += r.Buckets
			for k, v := range r.FPs {
				fps[k] += v
			}
			for _, k := range r.NonTrivial {
				nontriv[k] = true
			}
			if r.Sample != "" && len(samples) < 4 {
				samples = append(samples, r.Sample)
			}
			for _, b := range r.Bad {
				rp := c.keepReplay(r.File)
				c.Report(b.Kind, fmt.Sprintf("%s limit=%d via=%s: %s", filepath.Base(r.File), b.Limit, b.Via, b.Msg), rp)
			}
		}
	}
	if skipped > sources/10 {
		c.Inconclusive(fmt.Sprintf("%d of %d sources could not be used", skipped, skipped+sources))
	}
	if tot.NestedSplit == 0 || tot.CLIRuns == 0 {
		c.Inconclusive("no compaction committed inside a nested source / no CLI run")
	}
	cov := map[string]any{
		"evaluations":                          tot.Compactions + tot.CLIRuns,
		"distinct_nontrivial":                  len(nontriv),
		"rule":                                 "sources: generated API programs (profiles buckets/mixed/big/structural, nesting up to 5), 'twins' programs (same-named buckets at the same depth under different parents, with and without plain keys between them in walk order, empty/inline/paged, two levels) and hand-shaped deep programs (nesting up to 6, empty buckets, empty/nil/multi-page values, inline and paged buckets, sequences up to 2^64-1 at every level), 4 page sizes, both backends; each source x limits {derived: cumulative walk size at items inside nested buckets, total, total-1, total/2+1; fixed: 1,0,65536,7,64,2,2^20,4096,3,512,2^14} through bolt.Compact (destination page size/backend varied, source opened read-only or read-write) and through the freshly built `bbolt compact`. Oracle: destination dump == source dump == model M (sequences included), Tx.Check and D clean on the destination, source SHA-256 unchanged, CLI exit 0 and expected output on success, non-zero on missing/non-database source and unwritable destination. Non-trivial: source has nested buckets and >= 5 keys; distinct = (source shape: depth, empty bucket/value, nested sequence, inline, overflow, paged; limit class; via; number of destination commits; page size).",
		"samples":                              samples,
		"sources":                              sources,
		"sources_skipped":                      skipped,
		"library_compactions":                  tot.Compactions,
		"cli_compactions":                      tot.CLIRuns,
		"cli_failure_probes":                   tot.NegProbes,
		"compactions_with_intermediate_commit": tot.MultiCommit,
		"of_which_source_nested":               tot.NestedSplit,
		"source_keys_total":                    tot.Keys,
		"source_buckets_total":                 tot.Buckets,
		"distinct_fingerprints_all":            len(fps),
	}
	return c.Finish("exploration", cov, []string{
		"the model M of each source (built by the executor while the source was written) states the source content; the source is first read back through the API and must equal M",
		"the destination is empty (fresh file) as the property says; destinations with existing content are not generated",
	})
}
