package drivers

import (
	"go.etcd.io/bbolt/verifh/exec"
	"go.etcd.io/bbolt/verifh/gen"
)

func init() { Drivers["C07"] = runC07 }

func runC07(c *Ctx) int {
	// quiescent-point invariant: after every commit, rollback and reopen the file is decoded by D
	// (exact partition of [0,hwm)), Tx.Check must be silent, and DB.Stats / Tx.Page / the allocator
	// export must agree with D.
	mon := exec.Monitors{TxCheck: true, Accounting: true, FreeExact: true}
	if c.Replay != "" {
		return c.replayAPI(mon, 1_000_000)
	}
	n := c.Pick(640, 40000)
	progs := apiPrograms(c.Seed+100, n, []string{"buckets", "mixed", "manybuckets", "structural", "big", "buckets", "manybuckets", "bigkeys"}, func(i int, cfg *gen.Config) {
		cfg.Rollback = 0.3
		cfg.Reopen = 0.2
		cfg.ROProbe = 0
		if i%2 == 1 {
			cfg.OptSched = sessionOpts // every reopen may switch backend, freelist-sync and grow-sync
		}
		cfg.FailCommit = 0.2 // "committed, rolled-back and failed transactions": one injected I/O failure in a fifth of the commits
	})
	agg := c.runPrograms(progs, mon, c.Pick(20, 100), 1_000_000, func(cs *apiCase) bool {
		return cs.Stats.Commits >= 2 && cs.Stats.FileDecodes >= 3
	}, nil)
	cov := agg.coverage("programs biased to nested bucket create/delete/move (also of buckets dirtied earlier in the same transaction), rollbacks (30%) and reopens, over 4 page sizes x both backends x freelist-sync on/off; after every commit, rollback and reopen: D partitions [0,hwm) into meta/freelist/reachable-once/free-once, checks key order and element bounds and file length; Tx.Check must report nothing; DB.Stats (FreePageN+PendingPageN, FreeAlloc), Tx.Page(id).Type for every id and the exact allocator export (free+pending) must equal D's accounting. Non-trivial: >= 2 commits and >= 3 decoded images; distinct = structural fingerprint.")
	cov["file_images_checked"] = agg.FileDecodes
	if agg.FileDecodes == 0 || agg.TxChecks == 0 {
		c.Inconclusive("no file image was checked")
	}
	for _, t := range []string{"split", "rebalance", "depth-down", "overflow-present", "inline->paged", "paged->inline"} {
		if agg.Transitions[t] == 0 {
			c.Inconclusive("no program drove the structural transition " + t)
		}
	}
	return c.Finish("exploration", cov, []string{
		"D (harness/decode) is an independent implementation of the version-2 layout; it shares no code with Tx.Check",
		"with freelist sync off the free set is taken from the allocator export (VerifFreelist) instead of the freelist page",
	})
}
