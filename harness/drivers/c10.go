package drivers

import (
	"encoding/json"
	"fmt"
	"os"
	"path/filepath"
	"strings"
	"time"

	bolt "go.etcd.io/bbolt"
	"go.etcd.io/bbolt/verifh/exec"
	"go.etcd.io/bbolt/verifh/gen"
)

func init() {
	Drivers["C10"] = runC10
	ChildModes["c10growth"] = childC10Growth
}

type growthArgs struct {
	Dir     string         `json:"dir"`
	Configs []gen.OpenOpts `json:"configs"`
	Commits int            `json:"commits"`
	Seed    int64          `json:"seed"`
}

type growthRes struct {
	Config  string `json:"config"`
	HwmAtK  int    `json:"hwm_at_k"`
	HwmEnd  int    `json:"hwm_end"`
	Dirty   int    `json:"max_dirty_pages_per_tx"`
	Commits int    `json:"commits"`
	Bad     string `json:"bad,omitempty"`
}

// steady overwrite workload with single-page allocations and no readers: the
// high-water mark must stop growing.
func childC10Growth(argfile string) {
	var a growthArgs
	ReadArgs(argfile, &a)
	for i, o := range a.Configs {
		id := fmt.Sprintf("%d", i)
		ChildStart(id)
		res := growthRes{Config: o.String(), Commits: a.Commits}
		path := filepath.Join(a.Dir, fmt.Sprintf("growth-%d-%d.db", os.Getpid(), i))
		db, err := exec.Open(path, o)
		if err != nil {
			res.Bad = "open: " + err.Error()
			ChildDone(id, res)
			continue
		}
		const k = 20
		nkeys := 60
		for ci := 0; ci < a.Commits; ci++ {
			var alloc int64
			err := db.Update(func(tx *bolt.Tx) error {
				b, err := tx.CreateBucketIfNotExists([]byte("b"))
				if err != nil {
					return err
				}
				for j := 0; j < nkeys; j++ {
					v := gen.V{Seed: uint32(ci*1000 + j), Len: o.PageSize / 8}
					if err := b.Put([]byte(fmt.Sprintf("k%04d", (ci*7+j*3)%nkeys)), v.Bytes()); err != nil {
						return err
					}
				}
				return nil
			})
			if err != nil {
				res.Bad = "update: " + err.Error()
				break
			}
			s := db.Stats()
			_ = alloc
			_ = s
			var hwm int
			var dirty int64
			_ = db.View(func(tx *bolt.Tx) error { hwm = int(tx.Size() / int64(o.PageSize)); return nil })
			dst := db.Stats()
			dirty = dst.TxStats.GetPageCount()
			if ci == k {
				res.HwmAtK = hwm
			}
			res.HwmEnd = hwm
			if pc := int(dirty) / (ci + 1); pc > res.Dirty {
				res.Dirty = pc + 1
			}
		}
		db.Close()
		os.Remove(path)
		if res.Bad == "" && res.HwmEnd > res.HwmAtK+2*res.Dirty+4 {
			res.Bad = fmt.Sprintf("high-water mark grew from %d pages (after commit %d) to %d pages (after commit %d) although every commit dirties only about %d pages", res.HwmAtK, k, res.HwmEnd, a.Commits, res.Dirty)
		}
		ChildDone(id, res)
	}
}

func runC10(c *Ctx) int {
	mon := exMon{Reclaim: true}
	if c.Replay != "" {
		return replayExplorer(c, mon)
	}
	cases := explorerCases(c.Seed+70, c.Pick(4, 6), c.Pick(300, 3000), 30, c.Pick(120, 200))
	agg := c.runExplorer(cases, mon, c.Pick(60, 200), func(kind string) bool {
		return strings.HasPrefix(kind, "reclaim:") || kind == "panic"
	})
	cov := agg.coverage("allocator invariants at every transaction boundary of the interleaving explorer (readers opening and closing between writers, rollbacks, failed commits, reopens; both backends, freelist-sync on/off): (safety) no page of the newest version or of an open reader's version (page sets by D) is in the allocator's free set; (bounded progress) after a commit with no reader open at most the pages that very commit released are pending, and inside a write transaction begun with no reader open nothing is pending and the free set equals exactly the unreachable pages of the file; (no unbounded growth) steady single-page overwrite workload. distinct_nontrivial = distinct (reader-age pattern, writer outcome) situations with at least one reader open.")
	// growth sub-run
	var cfgs []gen.OpenOpts
	for _, ps := range []int{1024, 4096} {
		for _, fl := range backends {
			for _, nfs := range []bool{false, true} {
				cfgs = append(cfgs, gen.OpenOpts{PageSize: ps, Freelist: fl, NoFreelistSync: nfs, NoSync: true})
			}
		}
	}
	res := c.RunChild("c10growth", growthArgs{Dir: c.Tmp, Configs: cfgs, Commits: c.Pick(200, 5000), Seed: c.Seed}, 20*time.Minute)
	var growth []growthRes
	for _, l := range res.Lines {
		var g growthRes
		if json.Unmarshal([]byte(l), &g) == nil {
			growth = append(growth, g)
			if g.Bad != "" {
				rp := c.SaveReplay("growth-"+fmt.Sprint(len(growth))+".json", g)
				c.Report("reclaim:growth", g.Config+": "+g.Bad, rp)
			}
		}
	}
	if len(growth) != len(cfgs) {
		c.Inconclusive("growth sub-run incomplete: " + tail(res.Stderr, 300))
	}
	cov["steady_overwrite_runs"] = growth
	if agg.St.ReclaimChecks == 0 || agg.St.BeginNoReaders == 0 {
		c.Inconclusive("allocator invariants were never evaluated")
	}
	return c.Finish("exploration", cov, []string{
		"'does not grow without bound' is an unbounded eventuality; it is decided in its bounded-progress restatement (three checks above)",
		"with readers open only safety is asserted: bbolt deliberately keeps some pages pending that no reader needs (release is conservative by one transaction)",
		"the growth sub-run uses NoSync for speed; allocation behaviour does not depend on syncing",
	})
}
