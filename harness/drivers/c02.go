package drivers

import (
	"encoding/json"
	"errors"
	"fmt"
	"math/rand"
	"os"
	"path/filepath"
	"runtime"
	"strings"
	"sync"
	"sync/atomic"
	"time"

	bolt "go.etcd.io/bbolt"
	berrors "go.etcd.io/bbolt/errors"
	"go.etcd.io/bbolt/verifh/exec"
	"go.etcd.io/bbolt/verifh/gen"
	"go.etcd.io/bbolt/verifh/iotrace"
	"go.etcd.io/bbolt/verifh/model"
)

func init() {
	Drivers["C02"] = runC02
	ChildModes["c02conc"] = childC02Conc
}

// ---------------------------------------------------------------- part 2: truly concurrent readers and writer

type concArgs struct {
	Seed    int64        `json:"seed"`
	Rounds  int          `json:"rounds"`
	Commits int          `json:"commits"`
	Readers int          `json:"readers"`
	Dir     string       `json:"dir"`
	Opts    gen.OpenOpts `json:"opts"`
}

type concRes struct {
	Round        int              `json:"round"`
	Viol         []string         `json:"viol,omitempty"`
	ReaderTxs    int64            `json:"reader_txs"`
	ReaderDumps  int64            `json:"reader_dumps"`
	Commits      int              `json:"commits"`
	Remaps       int              `json:"remaps"`
	SizeRejects  int              `json:"size_rejects"`
	DistinctLag  map[string]int64 `json:"lags"` // newest-at-check minus reader id -> count
	OverlapDumps int64            `json:"dumps_overlapping_a_commit"`
	YieldPoints  map[string]int64 `json:"yield_points"`
}

func childC02Conc(argfile string) {
	var a concArgs
	ReadArgs(argfile, &a)
	for round := 0; round < a.Rounds; round++ {
		id := fmt.Sprintf("%d", round)
		ChildStart(id)
		res := concRound(&a, round)
		ChildDone(id, res)
	}
}

func concRound(a *concArgs, round int) concRes {
	res := concRes{Round: round, DistinctLag: map[string]int64{}}
	path := filepath.Join(a.Dir, fmt.Sprintf("conc-%d-%d.db", os.Getpid(), round))
	defer os.Remove(path)
	tr := iotrace.New(path)
	tr.EnableYields(a.Seed*131 + int64(round))
	remaps := int64(0)
	tr.OnAfter = func(ev *bolt.VerifIOEvent, err error) {
		if ev.Op == "mmap" {
			atomic.AddInt64(&remaps, 1)
		}
	}
	defer iotrace.Uninstall()
	var mu sync.Mutex
	fail := func(format string, x ...any) {
		mu.Lock()
		if len(res.Viol) < 10 {
			res.Viol = append(res.Viol, fmt.Sprintf(format, x...))
		}
		mu.Unlock()
	}
	opts := a.Opts
	db, err := exec.Open(path, opts)
	if err != nil {
		fail("open: %v", err)
		return res
	}
	defer db.Close()

	var vmu sync.RWMutex
	versions := map[int][]string{}
	var acked, registered atomic.Int64
	var commitSeq atomic.Int64
	sim := gen.NewSim()
	// version after open
	_ = db.View(func(tx *bolt.Tx) error {
		versions[tx.ID()] = exec.ModelDump(sim.Committed)
		acked.Store(int64(tx.ID()))
		registered.Store(int64(tx.ID()))
		return nil
	})
	stop := make(chan struct{})
	var wg sync.WaitGroup
	var readerTxs, readerDumps, overlap atomic.Int64
	lag := sync.Map{}
	for ri := 0; ri < a.Readers; ri++ {
		wg.Add(1)
		go func(ri int) {
			defer wg.Done()
			r := rand.New(rand.NewSource(a.Seed*7 + int64(round)*1009 + int64(ri)))
			for {
				select {
				case <-stop:
					return
				default:
				}
				before := acked.Load()
				tx, err := db.Begin(false)
				if err != nil {
					fail("Begin(false): %v", err)
					return
				}
				after := registered.Load()
				id := int64(tx.ID())
				readerTxs.Add(1)
				if id < before || id > after {
					fail("reader begun after commit %d was acknowledged (highest registered %d) has id %d", before, after, id)
				}
				vmu.RLock()
				want, ok := versions[int(id)]
				vmu.RUnlock()
				if !ok {
					fail("reader id %d is not a version the writer produced", id)
					_ = tx.Rollback()
					return
				}
				nd := 1 + r.Intn(3)
				for d := 0; d < nd; d++ {
					c0 := commitSeq.Load()
					func() {
						defer func() {
							if x := recover(); x != nil {
								fail("reader of version %d panicked while reading: %v", id, x)
							}
						}()
						got, probs := exec.DumpTx(tx, d == 0)
						readerDumps.Add(1)
						for _, p := range probs {
							fail("reader of version %d: %s", id, p)
						}
						if diff := model.DiffDumps(want, got); diff != "" {
							fail("read transaction of version %d does not show its snapshot (dump %d of %d, newest acked %d): %s", id, d+1, nd, acked.Load(), diff)
						}
					}()
					if commitSeq.Load() != c0 {
						overlap.Add(1)
					}
					k := fmt.Sprintf("%d", acked.Load()-id)
					c, _ := lag.LoadOrStore(k, new(atomic.Int64))
					c.(*atomic.Int64).Add(1)
					if r.Intn(2) == 0 {
						runtime.Gosched()
					} else {
						time.Sleep(time.Duration(r.Intn(300)) * time.Microsecond)
					}
				}
				if err := tx.Rollback(); err != nil {
					fail("reader Rollback: %v", err)
				}
			}
		}(ri)
	}
	// writer
	wr := rand.New(rand.NewSource(a.Seed*13 + int64(round)))
	ps := opts.PageSize
	grow := 0
	for ci := 0; ci < a.Commits && len(res.Viol) == 0; ci++ {
		tx, err := db.Begin(true)
		if err != nil {
			fail("Begin(true): %v", err)
			break
		}
		sim.Apply(&gen.Step{Op: "begin", W: true})
		var steps []gen.Step
		if ci%5 == 4 {
			// grow: new keys with large values, forces the file and the map to grow
			steps = append(steps, gen.Step{Op: "createIf", N: 3})
			for i := 0; i < 6; i++ {
				grow++
				steps = append(steps, gen.Step{Op: "put", P: []int{3}, K: &gen.K{ID: 1000 + grow}, V: &gen.V{Seed: wr.Uint32(), Len: ps + wr.Intn(2*ps)}})
			}
		} else {
			steps = explorerBatches(wr, ps, 1)[0]
		}
		ok := true
		for i := range steps {
			st := &steps[i]
			exp := sim.Apply(st)
			if exp.NilBkt {
				continue
			}
			if err := applyPlain(tx, st); !exec.ErrMatch(exp.Err, err) {
				fail("writer %s returned %v, model %q", st.Op, err, exp.Err)
				ok = false
				break
			}
		}
		if !ok {
			_ = tx.Rollback()
			break
		}
		if wr.Intn(8) == 1 {
			// a commit rejected by the size limit: bbolt rolls the transaction back itself (freelist reload)
			// while readers keep coming and going. The value needs a run of pages no free run can offer, so the
			// high-water mark would have to move, which the limit forbids.
			mk := gen.Step{Op: "createIf", N: 3}
			big := gen.Step{Op: "put", P: []int{3}, K: &gen.K{ID: 990}, V: &gen.V{Seed: wr.Uint32(), Len: 300 * ps}}
			sim.Apply(&mk)
			sim.Apply(&big)
			if err := applyPlain(tx, &mk); err != nil {
				fail("writer createIf: %v", err)
				_ = tx.Rollback()
				break
			}
			if err := applyPlain(tx, &big); err != nil {
				fail("writer put: %v", err)
				_ = tx.Rollback()
				break
			}
			id := tx.ID()
			vmu.Lock()
			versions[id] = exec.ModelDump(sim.Cur)
			vmu.Unlock()
			registered.Store(int64(id)) // only ever loosens the readers' id-range check
			db.MaxSize = 1
			err := tx.Commit()
			db.MaxSize = 0
			switch {
			case err == nil:
				sim.Apply(&gen.Step{Op: "commit"})
				registered.Store(int64(id))
				acked.Store(int64(id))
				commitSeq.Add(1)
				res.Commits++
			case errors.Is(err, berrors.ErrMaxSizeReached):
				sim.Apply(&gen.Step{Op: "rollback"})
				vmu.Lock()
				delete(versions, id)
				vmu.Unlock()
				res.SizeRejects++
			default:
				fail("commit under an unsatisfiable size limit: %v", err)
			}
			continue
		}
		rollback := wr.Intn(8) == 0
		if rollback {
			sim.Apply(&gen.Step{Op: "rollback"})
			_ = tx.Rollback()
			continue
		}
		id := tx.ID()
		sim.Apply(&gen.Step{Op: "commit"})
		vmu.Lock()
		versions[id] = exec.ModelDump(sim.Committed)
		vmu.Unlock()
		registered.Store(int64(id)) // a reader may legitimately see the new meta before Commit returns
		commitSeq.Add(1)
		if err := tx.Commit(); err != nil {
			fail("Commit: %v", err)
			break
		}
		acked.Store(int64(id))
		res.Commits++
		if wr.Intn(3) == 0 {
			time.Sleep(time.Duration(wr.Intn(400)) * time.Microsecond)
		}
	}
	close(stop)
	wg.Wait()
	res.ReaderTxs, res.ReaderDumps, res.OverlapDumps = readerTxs.Load(), readerDumps.Load(), overlap.Load()
	res.Remaps = int(atomic.LoadInt64(&remaps))
	lag.Range(func(k, v any) bool { res.DistinctLag[k.(string)] = v.(*atomic.Int64).Load(); return true })
	res.YieldPoints = tr.YieldStats()
	return res
}

// applyPlain performs one mutating step on a transaction (no oracle).
func applyPlain(tx *bolt.Tx, st *gen.Step) error {
	var b *bolt.Bucket
	if len(st.P) > 0 {
		names := gen.Path(st.P)
		b = tx.Bucket([]byte(names[0]))
		for _, n := range names[1:] {
			if b == nil {
				return fmt.Errorf("harness: path does not resolve")
			}
			b = b.Bucket([]byte(n))
		}
		if b == nil {
			return fmt.Errorf("harness: path does not resolve")
		}
	}
	name := []byte(gen.BucketName(st.N))
	switch st.Op {
	case "create":
		if b == nil {
			_, err := tx.CreateBucket(name)
			return err
		}
		_, err := b.CreateBucket(name)
		return err
	case "createIf":
		if b == nil {
			_, err := tx.CreateBucketIfNotExists(name)
			return err
		}
		_, err := b.CreateBucketIfNotExists(name)
		return err
	case "delBucket":
		if b == nil {
			return tx.DeleteBucket(name)
		}
		return b.DeleteBucket(name)
	case "put":
		return b.Put(st.K.Bytes(), st.V.Bytes())
	case "del":
		return b.Delete(st.K.Bytes())
	case "delRange":
		lo, hi := string(st.K.Bytes()), string(st.K2.Bytes())
		var ks [][]byte
		c := b.Cursor()
		for k, _ := c.Seek([]byte(lo)); k != nil && string(k) <= hi; k, _ = c.Next() {
			if b.Bucket(k) == nil {
				ks = append(ks, append([]byte{}, k...))
			}
		}
		for _, k := range ks {
			if err := b.Delete(k); err != nil {
				return err
			}
		}
		return nil
	case "nextSeq":
		_, err := b.NextSequence()
		return err
	case "setSeq":
		return b.SetSequence(st.U)
	case "move":
		// st.P: source parent (nil = root), st.N: name, st.D: destination parent (nil = root)
		var dst *bolt.Bucket
		if len(st.D) > 0 {
			names := gen.Path(st.D)
			dst = tx.Bucket([]byte(names[0]))
			for _, n := range names[1:] {
				if dst == nil {
					return fmt.Errorf("harness: destination path does not resolve")
				}
				dst = dst.Bucket([]byte(n))
			}
			if dst == nil {
				return fmt.Errorf("harness: destination path does not resolve")
			}
		}
		return tx.MoveBucket(name, b, dst)
	default:
		return fmt.Errorf("harness: applyPlain does not know the operation %q", st.Op)
	}
}

// raceReports counts "WARNING: DATA RACE" blocks in the race detector's log files.
func raceReports(prefix string) (n int, first string) {
	files, _ := filepath.Glob(prefix + "*")
	for _, f := range files {
		b, err := os.ReadFile(f)
		if err != nil {
			continue
		}
		s := string(b)
		k := strings.Count(s, "WARNING: DATA RACE")
		n += k
		if k > 0 && first == "" {
			first = s
			if len(first) > 6000 {
				first = first[:6000]
			}
		}
		os.Remove(f)
	}
	return
}

func runC02(c *Ctx) int {
	mon := exMon{Readers: true}
	if c.Replay != "" {
		return replayExplorer(c, mon)
	}
	cases := explorerCases(c.Seed, c.Pick(4, 6), c.Pick(300, 3000), 30, c.Pick(120, 200))
	agg := c.runExplorer(cases, mon, c.Pick(60, 200), nil)
	cov := agg.coverage("part 1 (deterministic explorer): every legal sequence of {begin-reader, close-oldest, close-newest, writer-commit, writer-rollback, writer-commit-with-one-injected-I/O-fault, reopen} of the enumerated length (quick 5, thorough 6; up to 3 simultaneous readers), wrapped in warm-up/tail commits, plus seeded random sequences of 30..200 events; write batches overwrite the same keys, delete/recreate buckets and use multi-page values so that freed pages are recycled at once; after EVERY event EVERY open reader is completely re-dumped (forward, reverse, Get, ForEach) and compared with the model's version tx.ID(); configurations 1 KiB/4 KiB pages x both backends x freelist-sync on/off. distinct_nontrivial = distinct (ages of the open readers relative to the newest version, writer outcome incl. which I/O call failed) situations with at least one reader open.")

	// part 2: truly concurrent, under the race detector
	if bin := os.Getenv("VCHECK_RACE"); bin != "" {
		c.ChildBin = bin
		rounds := c.Pick(6, 60)
		var tot concRes
		tot.DistinctLag = map[string]int64{}
		tot.YieldPoints = map[string]int64{}
		nchild := c.Pick(6, 16)
		type out struct{ rs []concRes }
		outs := make([]out, nchild)
		races := 0
		var raceText string
		var rmu sync.Mutex
		c.Parallel(nchild, func(i int) {
			logp := filepath.Join(c.Tmp, fmt.Sprintf("race-c02-%d", i))
			a := concArgs{Seed: c.Seed + int64(i)*101, Rounds: (rounds + nchild - 1) / nchild, Commits: c.Pick(150, 400), Readers: 4 + i%5, Dir: c.Tmp,
				Opts: gen.OpenOpts{PageSize: []int{1024, 4096}[i%2], Freelist: backends[(i/2)%2], NoFreelistSync: (i/4)%2 == 1}}
			res := c.RunChild("c02conc", a, 15*time.Minute, "GORACE=halt_on_error=0 log_path="+logp)
			for _, l := range res.Lines {
				var r concRes
				if json.Unmarshal([]byte(l), &r) == nil {
					outs[i].rs = append(outs[i].rs, r)
				}
			}
			n, first := raceReports(logp)
			rmu.Lock()
			races += n
			if raceText == "" {
				raceText = first
			}
			rmu.Unlock()
			if unf := res.Unfinished(); len(unf) > 0 || (res.ExitErr != nil && n == 0) {
				if res.TimedOut {
					c.Inconclusive("concurrent round watchdog")
				} else if len(unf) > 0 {
					rp := c.SaveReplay(fmt.Sprintf("conc-crash-%d.json", i), map[string]any{"args": a, "stderr": res.Stderr})
					c.Report("conc:crash:"+crashKind(res.Stderr), "concurrent readers/writer process died: "+tail(res.Stderr, 1200), rp)
				}
			}
		})
		c.ChildBin = ""
		for i, o := range outs {
			for _, r := range o.rs {
				tot.ReaderTxs += r.ReaderTxs
				tot.ReaderDumps += r.ReaderDumps
				tot.Commits += r.Commits
				tot.Remaps += r.Remaps
				tot.SizeRejects += r.SizeRejects
				tot.OverlapDumps += r.OverlapDumps
				for k, v := range r.DistinctLag {
					tot.DistinctLag[k] += v
				}
				for k, v := range r.YieldPoints {
					tot.YieldPoints[k] += v
				}
				if len(r.Viol) > 0 {
					rp := c.SaveReplay(fmt.Sprintf("conc-%d-round%d.json", i, r.Round), r)
					c.Report("conc:snapshot", r.Viol[0], rp)
				}
			}
		}
		if races > 0 {
			rp := c.SaveReplay("race-report.json", map[string]any{"reports": races, "first": raceText})
			c.Report("race", fmt.Sprintf("%d data race report(s) from the race detector", races), rp)
		}
		cov["concurrent_reader_transactions"] = tot.ReaderTxs
		cov["concurrent_reader_dumps"] = tot.ReaderDumps
		cov["concurrent_dumps_overlapping_a_commit"] = tot.OverlapDumps
		cov["concurrent_commits"] = tot.Commits
		cov["concurrent_remaps_observed"] = tot.Remaps
		cov["concurrent_commits_rejected_by_size_limit"] = tot.SizeRejects
		cov["concurrent_reader_lag_histogram"] = tot.DistinctLag
		cov["yield_points_passed"] = tot.YieldPoints
		cov["race_reports"] = races
		if tot.ReaderDumps == 0 || tot.OverlapDumps == 0 {
			c.Inconclusive("the concurrent part observed no reader dump overlapping a commit")
		}
	}
	if agg.St.ReaderDumps == 0 {
		c.Inconclusive("no reader was re-dumped")
	}
	return c.Finish("exploration", cov, []string{
		"part 1 runs on one goroutine with an initial map larger than the workload (a reader held by the goroutine that drives a remapping writer deadlocks by design); remapping with open readers is exercised by part 2",
		"part 2: goroutine schedules are whatever the scheduler plus seeded yields at the verifYield points produced; a clean race-detector run shows no race on those schedules only",
	})
}
