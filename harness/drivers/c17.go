package drivers

import (
	"bufio"
	"bytes"
	"encoding/json"
	"errors"
	"fmt"
	"io"
	"math/rand"
	"os"
	osexec "os/exec"
	"path/filepath"
	"regexp"
	"runtime/debug"
	"sort"
	"strconv"
	"strings"
	"sync"
	"time"

	bolt "go.etcd.io/bbolt"
	berrors "go.etcd.io/bbolt/errors"
	"go.etcd.io/bbolt/verifh/exec"
	"go.etcd.io/bbolt/verifh/gen"
	"go.etcd.io/bbolt/verifh/model"
)

// C17 — file locks and read-only mode protect the file.
//
// Part A (locks): every sequence over {open read-write, open read-only} x
// {separate process, same process} and {close oldest, close newest holder} up
// to a bound is executed on a fresh file; a lock model (one writer xor any
// number of readers) says for every open whether it must be acquired or must
// end with the timeout error. Outcomes are classes (acquired / ErrTimeout /
// other error), never latencies. Opens without a timeout that conflict must
// not acquire while the holder holds and must acquire after it closes.
// Part B (read-only handle): a hostile API program against read-only opens
// (all option combinations): every mutator must be refused, reads must equal
// the model, SHA-256/size/mtime of the file and the I/O hook (zero write and
// truncate events) must show that nothing was changed.
// Part C (CLI): the inspection commands are run against the files; file
// identity before/after; in thorough also under strace (no write-type
// syscall on the database descriptor, the file is opened O_RDONLY).
// Part D (memory): one byte of every key/value slice handed out by a read
// transaction is flipped under SetPanicOnFault; outcome must be a fault or a
// private copy: a fresh transaction and the file hash see the old content.

func init() {
	Drivers["C17"] = runC17
	ChildModes["lockprobe"] = childLockProbe
	ChildModes["c17lock"] = childC17Lock
	ChildModes["c17ro"] = childC17RO
}

// ------------------------------------------------------------------ helper process: one open

type lockProbeArgs struct {
	Path      string `json:"path"`
	RO        bool   `json:"ro"`
	TimeoutMS int    `json:"timeout_ms"`
}

func openClass(err error) string {
	switch {
	case err == nil:
		return "ACQUIRED"
	case errors.Is(err, berrors.ErrTimeout):
		return "TIMEOUT"
	}
	return "ERROR " + strings.ReplaceAll(err.Error(), "\n", " ")
}

func childLockProbe(argfile string) {
	var a lockProbeArgs
	ReadArgs(argfile, &a)
	db, err := bolt.Open(a.Path, 0600, &bolt.Options{ReadOnly: a.RO, Timeout: time.Duration(a.TimeoutMS) * time.Millisecond})
	fmt.Println(openClass(err))
	os.Stdout.Sync()
	if err != nil {
		return
	}
	// hold the database until told to close (or until stdin is closed)
	rd := bufio.NewReader(os.Stdin)
	_, _ = rd.ReadString('\n')
	if err := db.Close(); err != nil {
		fmt.Println("CLOSE-ERROR", err)
		return
	}
	fmt.Println("CLOSED")
}

// holder is one open handle, in this process or in a helper process.
type holder struct {
	ro    bool
	proc  bool
	db    *bolt.DB
	cmd   *osexec.Cmd
	stdin io.WriteCloser
	lines chan string
	argf  string
}

const lockWatchdog = 60 * time.Second

var errWatchdog = errors.New("watchdog")

// openHandle performs one open and returns its outcome class; h != nil iff acquired.
func openHandle(dir, path string, ro, proc bool, timeoutMS int) (class string, h *holder, err error) {
	if !proc {
		type res struct {
			db  *bolt.DB
			err error
		}
		ch := make(chan res, 1)
		go func() {
			db, err := bolt.Open(path, 0600, &bolt.Options{ReadOnly: ro, Timeout: time.Duration(timeoutMS) * time.Millisecond})
			ch <- res{db, err}
		}()
		select {
		case r := <-ch:
			if r.err != nil {
				return openClass(r.err), nil, nil
			}
			return "ACQUIRED", &holder{ro: ro, db: r.db}, nil
		case <-time.After(lockWatchdog):
			return "", nil, errWatchdog
		}
	}
	self, _ := os.Executable()
	af, _ := os.CreateTemp(dir, "lockprobe-*.json")
	b, _ := json.Marshal(lockProbeArgs{Path: path, RO: ro, TimeoutMS: timeoutMS})
	_, _ = af.Write(b)
	af.Close()
	cmd := osexec.Command(self, "child", "lockprobe", af.Name())
	stdin, _ := cmd.StdinPipe()
	stdout, _ := cmd.StdoutPipe()
	cmd.Stderr = nil
	if err := cmd.Start(); err != nil {
		os.Remove(af.Name())
		return "", nil, err
	}
	lines := make(chan string, 8)
	go func() {
		sc := bufio.NewScanner(stdout)
		for sc.Scan() {
			lines <- sc.Text()
		}
		close(lines)
	}()
	h = &holder{ro: ro, proc: true, cmd: cmd, stdin: stdin, lines: lines, argf: af.Name()}
	select {
	case l, ok := <-lines:
		if !ok {
			_ = cmd.Wait()
			os.Remove(af.Name())
			return "ERROR helper process ended without a result", nil, nil
		}
		if l != "ACQUIRED" {
			stdin.Close()
			_ = cmd.Wait()
			os.Remove(af.Name())
			return l, nil, nil
		}
		return l, h, nil
	case <-time.After(lockWatchdog):
		_ = cmd.Process.Kill()
		_ = cmd.Wait()
		os.Remove(af.Name())
		return "", nil, errWatchdog
	}
}

// startBlockingOpen starts an open without a timeout in a helper process and returns at once.
func startBlockingOpen(dir, path string, ro bool) (*holder, error) {
	self, _ := os.Executable()
	af, _ := os.CreateTemp(dir, "lockprobe-*.json")
	b, _ := json.Marshal(lockProbeArgs{Path: path, RO: ro, TimeoutMS: 0})
	_, _ = af.Write(b)
	af.Close()
	cmd := osexec.Command(self, "child", "lockprobe", af.Name())
	stdin, _ := cmd.StdinPipe()
	stdout, _ := cmd.StdoutPipe()
	if err := cmd.Start(); err != nil {
		os.Remove(af.Name())
		return nil, err
	}
	lines := make(chan string, 8)
	go func() {
		sc := bufio.NewScanner(stdout)
		for sc.Scan() {
			lines <- sc.Text()
		}
		close(lines)
	}()
	return &holder{ro: ro, proc: true, cmd: cmd, stdin: stdin, lines: lines, argf: af.Name()}, nil
}

func (h *holder) close() (string, error) {
	if !h.proc {
		if err := h.db.Close(); err != nil {
			return "CLOSE-ERROR " + err.Error(), nil
		}
		return "CLOSED", nil
	}
	defer os.Remove(h.argf)
	_, _ = io.WriteString(h.stdin, "close\n")
	h.stdin.Close()
	select {
	case l, ok := <-h.lines:
		_ = h.cmd.Wait()
		if !ok {
			return "CLOSE-ERROR helper ended without CLOSED", nil
		}
		return l, nil
	case <-time.After(lockWatchdog):
		_ = h.cmd.Process.Kill()
		_ = h.cmd.Wait()
		return "", errWatchdog
	}
}

func (h *holder) kill() {
	if h.proc {
		_ = h.cmd.Process.Kill()
		_ = h.cmd.Wait()
		os.Remove(h.argf)
	} else if h.db != nil {
		_ = h.db.Close()
	}
}

// ------------------------------------------------------------------ part A: lock sequences

// lock events: "Wp" open rw in a process, "Ws" open rw in this process, "Rp", "Rs", "Co" close oldest, "Cn" close newest.
var lockAlphabet = []string{"Wp", "Rp", "Ws", "Rs", "Co", "Cn"}

type c17LockArgs struct {
	Seqs      [][]string `json:"seqs"`
	Blocking  []string   `json:"blocking"` // scenarios "holder>waiter", e.g. "Wp>Rp"
	Dir       string     `json:"dir"`
	TimeoutMS int        `json:"timeout_ms"`
}

type c17LockRes struct {
	Seqs      int            `json:"seqs"`
	Opens     int            `json:"opens"`
	Outcomes  map[string]int `json:"outcomes"` // "<event> with <holders> -> class"
	Conflicts int            `json:"conflicts"`
	Blocking  int            `json:"blocking"`
	Bad       []string       `json:"bad,omitempty"`
	BadSeq    [][]string     `json:"bad_seq,omitempty"`
	Inconcl   []string       `json:"inconclusive,omitempty"`
}

func makeLockFile(path string) error {
	db, err := bolt.Open(path, 0600, &bolt.Options{Timeout: time.Second})
	if err != nil {
		return err
	}
	err = db.Update(func(tx *bolt.Tx) error {
		b, err := tx.CreateBucketIfNotExists([]byte("b"))
		if err != nil {
			return err
		}
		return b.Put([]byte("k"), []byte("v"))
	})
	if cerr := db.Close(); err == nil {
		err = cerr
	}
	return err
}

func holdersLabel(hs []*holder) string {
	if len(hs) == 0 {
		return "none"
	}
	var s []string
	for _, h := range hs {
		l := "W"
		if h.ro {
			l = "R"
		}
		if h.proc {
			l += "p"
		} else {
			l += "s"
		}
		s = append(s, l)
	}
	return strings.Join(s, "+")
}

func runLockSeq(a *c17LockArgs, n int, seq []string, res *c17LockRes) {
	path := filepath.Join(a.Dir, fmt.Sprintf("c17-lock-%d-%d.db", os.Getpid(), n))
	defer os.Remove(path)
	if err := makeLockFile(path); err != nil {
		res.Inconcl = append(res.Inconcl, "cannot create lock file: "+err.Error())
		return
	}
	var hs []*holder
	defer func() {
		for _, h := range hs {
			h.kill()
		}
	}()
	bad := func(format string, x ...any) {
		if len(res.Bad) < 8 {
			res.Bad = append(res.Bad, fmt.Sprintf("%v: ", seq)+fmt.Sprintf(format, x...))
			res.BadSeq = append(res.BadSeq, seq)
		}
	}
	res.Seqs++
	for step, ev := range seq {
		fmt.Printf("LOCKSEQ %d step %d of %v\n", n, step, seq)
		switch ev[0] {
		case 'C':
			if len(hs) == 0 {
				return // not a legal sequence (pruned by the generator; defensive)
			}
			i := 0
			if ev == "Cn" {
				i = len(hs) - 1
			}
			out, err := hs[i].close()
			if err != nil {
				res.Inconcl = append(res.Inconcl, fmt.Sprintf("%v: watchdog while closing", seq))
				hs = append(hs[:i], hs[i+1:]...)
				return
			}
			if out != "CLOSED" {
				bad("step %d close: %s", step, out)
			}
			hs = append(hs[:i], hs[i+1:]...)
		default:
			ro := ev[0] == 'R'
			proc := ev[1] == 'p'
			// the lock model: a writer excludes everybody, readers exclude writers
			want := "ACQUIRED"
			for _, h := range hs {
				if !h.ro || !ro {
					want = "TIMEOUT"
				}
			}
			label := holdersLabel(hs)
			class, h, err := openHandle(a.Dir, path, ro, proc, a.TimeoutMS)
			if err != nil {
				res.Inconcl = append(res.Inconcl, fmt.Sprintf("%v: watchdog/launch failure at step %d: %v", seq, step, err))
				return
			}
			res.Opens++
			res.Outcomes[fmt.Sprintf("%s while %s held -> %s", ev, label, strings.SplitN(class, " ", 2)[0])]++
			if want == "TIMEOUT" {
				res.Conflicts++
			}
			if h != nil {
				hs = append(hs, h)
			}
			if !strings.HasPrefix(class, want) {
				bad("step %d: open %s while %s is held ended %q, the lock rules require %s", step, ev, label, class, want)
				return
			}
		}
	}
	// closing releases the lock: after all holders closed, a read-write open succeeds at once
	for len(hs) > 0 {
		out, err := hs[0].close()
		if err != nil {
			res.Inconcl = append(res.Inconcl, fmt.Sprintf("%v: watchdog while closing", seq))
			hs = hs[1:]
			return
		}
		if out != "CLOSED" {
			bad("final close: %s", out)
		}
		hs = hs[1:]
	}
	class, h, err := openHandle(a.Dir, path, false, n%2 == 0, a.TimeoutMS)
	if err != nil {
		res.Inconcl = append(res.Inconcl, fmt.Sprintf("%v: watchdog at the final open", seq))
		return
	}
	res.Opens++
	if h != nil {
		_, _ = h.close()
	}
	if class != "ACQUIRED" {
		bad("after every holder closed, a read-write open ended %q", class)
	}
}

// runBlocking: holder holds; a conflicting open without a timeout must not be
// acquired while it holds (observed for a while: a miss is possible, a false
// alarm is not) and must be acquired once the holder closed.
func runBlocking(a *c17LockArgs, n int, sc string, res *c17LockRes) {
	parts := strings.Split(sc, ">")
	path := filepath.Join(a.Dir, fmt.Sprintf("c17-block-%d-%d.db", os.Getpid(), n))
	defer os.Remove(path)
	if err := makeLockFile(path); err != nil {
		res.Inconcl = append(res.Inconcl, "cannot create lock file: "+err.Error())
		return
	}
	fmt.Printf("LOCKBLOCK %s\n", sc)
	hro, hproc := parts[0][0] == 'R', parts[0][1] == 'p'
	class, h, err := openHandle(a.Dir, path, hro, hproc, a.TimeoutMS)
	if err != nil || h == nil {
		res.Inconcl = append(res.Inconcl, fmt.Sprintf("blocking %s: holder not acquired (%s, %v)", sc, class, err))
		return
	}
	w, err := startBlockingOpen(a.Dir, path, parts[1][0] == 'R')
	if err != nil {
		h.kill()
		res.Inconcl = append(res.Inconcl, "cannot start waiter: "+err.Error())
		return
	}
	res.Blocking++
	select {
	case l := <-w.lines:
		res.Bad = append(res.Bad, fmt.Sprintf("blocking %s: an open without timeout returned %q while the conflicting holder still held the file", sc, l))
		res.BadSeq = append(res.BadSeq, []string{sc})
		h.kill()
		w.kill()
		return
	case <-time.After(250 * time.Millisecond):
	}
	if out, err := h.close(); err != nil || out != "CLOSED" {
		res.Inconcl = append(res.Inconcl, fmt.Sprintf("blocking %s: holder close: %s %v", sc, out, err))
		w.kill()
		return
	}
	select {
	case l := <-w.lines:
		if l != "ACQUIRED" {
			res.Bad = append(res.Bad, fmt.Sprintf("blocking %s: after the holder closed the waiting open ended %q", sc, l))
			res.BadSeq = append(res.BadSeq, []string{sc})
			w.kill()
			return
		}
		_, _ = w.close()
	case <-time.After(lockWatchdog):
		res.Inconcl = append(res.Inconcl, fmt.Sprintf("blocking %s: waiter did not acquire within the watchdog after the holder closed", sc))
		w.kill()
	}
}

func childC17Lock(argfile string) {
	var a c17LockArgs
	ReadArgs(argfile, &a)
	res := c17LockRes{Outcomes: map[string]int{}}
	ChildStart("0")
	for i, s := range a.Seqs {
		runLockSeq(&a, i, s, &res)
	}
	for i, b := range a.Blocking {
		runBlocking(&a, i, b, &res)
	}
	ChildDone("0", res)
}

// legalLockSeqs enumerates all legal sequences of exactly length n (a close needs a holder; at most 4 holders).
func legalLockSeqs(n int) [][]string {
	var out [][]string
	var rec func(cur []string, holders int)
	rec = func(cur []string, holders int) {
		if len(cur) == n {
			out = append(out, append([]string(nil), cur...))
			return
		}
		for _, ev := range lockAlphabet {
			if ev[0] == 'C' {
				if holders == 0 || (ev == "Cn" && holders == 1) { // with one holder Co == Cn
					continue
				}
				rec(append(cur, ev), holders-1)
			} else {
				// the number of holders after an open depends on the outcome; an upper bound is enough for legality
				rec(append(cur, ev), holders+1)
			}
		}
	}
	rec(nil, 0)
	return out
}

// ------------------------------------------------------------------ parts B, C, D: read-only use of a file

type c17ROArgs struct {
	Progs  []string `json:"progs"`
	Dir    string   `json:"dir"`
	Bbolt  string   `json:"bbolt"`
	Strace bool     `json:"strace"`
	Seed   int64    `json:"seed"`
}

type c17ROBad struct {
	Kind string `json:"kind"`
	Msg  string `json:"msg"`
}

type c17RORes struct {
	File        string         `json:"file"`
	Skipped     string         `json:"skipped,omitempty"`
	ROOpens     int            `json:"ro_opens"`
	Refusals    int            `json:"refusals"` // mutators refused
	Reads       int            `json:"reads"`
	CLI         map[string]int `json:"cli"`
	Straced     int            `json:"straced"`
	Slices      int            `json:"slices"` // slices written into
	Faults      int            `json:"faults"`
	Copies      int            `json:"copies"`
	HookEvents  map[string]int `json:"hook_events"`
	Bad         []c17ROBad     `json:"bad,omitempty"`
	FPs         []string       `json:"fps"`
	Sample      string         `json:"sample,omitempty"`
	IdentityCmp int            `json:"identity_cmp"`
}

type fileIdent struct {
	sha   string
	size  int64
	mtime time.Time
}

func identOf(path string) (fileIdent, error) {
	b, err := os.ReadFile(path)
	if err != nil {
		return fileIdent{}, err
	}
	fi, err := os.Stat(path)
	if err != nil {
		return fileIdent{}, err
	}
	return fileIdent{sha(b), fi.Size(), fi.ModTime()}, nil
}

func (a fileIdent) diff(b fileIdent) string {
	switch {
	case a.size != b.size:
		return fmt.Sprintf("length %d -> %d", a.size, b.size)
	case a.sha != b.sha:
		return "content (SHA-256) changed"
	case !a.mtime.Equal(b.mtime):
		return fmt.Sprintf("modification time %v -> %v", a.mtime, b.mtime)
	}
	return ""
}

func childC17RO(argfile string) {
	var a c17ROArgs
	ReadArgs(argfile, &a)
	for i, f := range a.Progs {
		id := fmt.Sprintf("%d", i)
		ChildStart(id)
		ChildDone(id, c17ROOne(&a, i, f))
	}
}

// writeProbe flips one byte of s under SetPanicOnFault: "fault", or "written".
func writeProbe(s []byte) (outcome string) {
	done := make(chan string, 1)
	go func() {
		debug.SetPanicOnFault(true)
		defer func() {
			if x := recover(); x != nil {
				done <- "fault"
			}
		}()
		s[0] ^= 0x5A
		done <- "written"
	}()
	return <-done
}

var wroteRE = regexp.MustCompile(`^(\d+)\s+(openat|write|pwrite64|pwritev|pwritev2|ftruncate|fallocate|close|truncate|unlink|unlinkat|rename|renameat|renameat2|chmod|fchmod|utimensat|futimesat|mmap)\((.*)$`)

func c17ROOne(a *c17ROArgs, idx int, progFile string) (res c17RORes) {
	res = c17RORes{File: progFile, CLI: map[string]int{}, HookEvents: map[string]int{}}
	bad := func(kind, format string, x ...any) {
		if len(res.Bad) < 8 {
			res.Bad = append(res.Bad, c17ROBad{kind, fmt.Sprintf(format, x...)})
		}
	}
	p, err := loadProgram(progFile)
	if err != nil {
		res.Skipped = err.Error()
		return
	}
	path := filepath.Join(a.Dir, fmt.Sprintf("c17-ro-%d-%d.db", os.Getpid(), idx))
	defer os.Remove(path)
	r := exec.NewRunner(path, exec.Monitors{})
	if v := r.Run(p); len(v) > 0 {
		res.Skipped = "history failed: " + v[0].String()
		return
	}
	m := r.Sim.Committed
	want := exec.ModelDump(m)
	srcOpts := gen.OpenOpts{}
	if len(p.Steps) > 0 && p.Steps[0].Opts != nil {
		srcOpts = *p.Steps[0].Opts
	}
	// make the modification time old, so that any later change of it is visible whatever the clock granularity
	old := time.Now().Add(-48 * time.Hour).Truncate(time.Second)
	_ = os.Chtimes(path, old, old)
	before, err := identOf(path)
	if err != nil {
		res.Skipped = err.Error()
		return
	}
	same := func(what string) {
		now, err := identOf(path)
		res.IdentityCmp++
		if err != nil {
			bad("file-changed", "%s: %v", what, err)
			return
		}
		if d := before.diff(now); d != "" {
			bad("file-changed", "%s: the file used read-only changed: %s", what, d)
			// restore for the remaining parts
			if b, err := os.ReadFile(path); err == nil && now.sha == before.sha {
				_ = b
			}
			_ = os.Chtimes(path, old, old)
			before.mtime = old
			if nb, err := identOf(path); err == nil {
				before = nb
			}
		}
	}

	// ---- part B: hostile API use of read-only handles; the I/O hook watches the path
	var hookMu sync.Mutex
	bolt.SetVerifHooks(&bolt.VerifHooks{Before: func(ev *bolt.VerifIOEvent) error {
		if ev.Path == path {
			hookMu.Lock()
			res.HookEvents[ev.Op]++
			hookMu.Unlock()
		}
		return nil
	}})
	defer bolt.SetVerifHooks(nil)
	rr := rand.New(rand.NewSource(a.Seed*131 + int64(idx)))
	combos := []gen.OpenOpts{
		{ReadOnly: true},
		{ReadOnly: true, PreLoadFreelist: true, Freelist: "hashmap"},
		{ReadOnly: true, InitialMmapSize: 1 << 26, Mlock: rr.Intn(2) == 0},
		{ReadOnly: true, NoFreelistSync: !srcOpts.NoFreelistSync, PreLoadFreelist: rr.Intn(2) == 0, Freelist: backends[rr.Intn(2)], NoGrowSync: true, StrictMode: true},
		{ReadOnly: true, PageSize: 512 << uint(rr.Intn(6)), MaxSize: 1 + rr.Intn(1<<20), AllocSize: 1 << 12},
	}
	expectErr := func(what string, err error, wantErr error) {
		if !errors.Is(err, wantErr) {
			bad("not-refused", "%s on a read-only database returned %v, want %v", what, err, wantErr)
		} else {
			res.Refusals++
		}
	}
	anyBucket := func(tx *bolt.Tx) (*bolt.Bucket, []byte) {
		var name []byte
		var bk *bolt.Bucket
		_ = tx.ForEach(func(n []byte, b *bolt.Bucket) error {
			if bk == nil {
				name, bk = append([]byte(nil), n...), b
			}
			return nil
		})
		return bk, name
	}
	for ci, o := range combos {
		fmt.Printf("CASE ro-api combo %d of %s\n", ci, filepath.Base(progFile))
		db, err := exec.Open(path, o)
		if err != nil {
			bad("ro-open", "read-only open with %s failed: %v", o, err)
			continue
		}
		res.ROOpens++
		// a second read-only handle coexists
		db2, err := exec.Open(path, gen.OpenOpts{ReadOnly: true})
		if err != nil {
			bad("ro-open", "second read-only open failed: %v", err)
		}
		if !db.IsReadOnly() {
			bad("ro-open", "IsReadOnly() is false")
		}
		// write transactions are refused, the body is never run
		ran := false
		tx, err := db.Begin(true)
		expectErr("Begin(true)", err, berrors.ErrDatabaseReadOnly)
		if tx != nil {
			_ = tx.Rollback()
		}
		expectErr("Update", db.Update(func(tx *bolt.Tx) error { ran = true; return nil }), berrors.ErrDatabaseReadOnly)
		expectErr("Batch", db.Batch(func(tx *bolt.Tx) error { ran = true; return nil }), berrors.ErrDatabaseReadOnly)
		if ran {
			bad("not-refused", "the body of Update/Batch ran on a read-only database")
		}
		_ = db.Sync() // whatever it returns, the file must stay as it is
		_ = db.Stats()
		_ = db.Info()
		_ = db.String()
		err = db.View(func(tx *bolt.Tx) error {
			got, probs := exec.DumpTx(tx, true)
			res.Reads++
			for _, x := range probs {
				bad("ro-read", "%s", x)
			}
			if d := model.DiffDumps(want, got); d != "" {
				bad("ro-read", "read-only handle shows different content: %s", d)
			}
			if errs := exec.CheckTx(tx); len(errs) > 0 {
				bad("ro-read", "Tx.Check through a read-only handle: %s", errs[0])
			}
			for id := 0; ; id++ {
				pi, err := tx.Page(id)
				if err != nil || pi == nil {
					break
				}
			}
			// every mutator is refused
			_, err := tx.CreateBucket([]byte("c17-new"))
			expectErr("Tx.CreateBucket", err, berrors.ErrTxNotWritable)
			_, err = tx.CreateBucketIfNotExists([]byte("c17-new"))
			expectErr("Tx.CreateBucketIfNotExists", err, berrors.ErrTxNotWritable)
			if b, name := anyBucket(tx); b != nil {
				expectErr("Tx.DeleteBucket", tx.DeleteBucket(name), berrors.ErrTxNotWritable)
				expectErr("Tx.MoveBucket", tx.MoveBucket(name, nil, b), berrors.ErrTxNotWritable)
				expectErr("Bucket.Put", b.Put([]byte("c17-k"), []byte("v")), berrors.ErrTxNotWritable)
				expectErr("Bucket.Delete", b.Delete([]byte("c17-k")), berrors.ErrTxNotWritable)
				expectErr("Bucket.SetSequence", b.SetSequence(99), berrors.ErrTxNotWritable)
				_, err = b.NextSequence()
				expectErr("Bucket.NextSequence", err, berrors.ErrTxNotWritable)
				_, err = b.CreateBucket([]byte("c17-sub"))
				expectErr("Bucket.CreateBucket", err, berrors.ErrTxNotWritable)
				_, err = b.CreateBucketIfNotExists([]byte("c17-sub"))
				expectErr("Bucket.CreateBucketIfNotExists", err, berrors.ErrTxNotWritable)
				expectErr("Bucket.DeleteBucket", b.DeleteBucket([]byte("c17-sub")), berrors.ErrTxNotWritable)
				c := b.Cursor()
				if k, _ := c.First(); k != nil {
					expectErr("Cursor.Delete", c.Delete(), berrors.ErrTxNotWritable)
				}
				b.FillPercent = 0.1
			}
			// copies go elsewhere
			var sink bytes.Buffer
			if n, err := tx.WriteTo(&sink); err != nil || n != tx.Size() {
				bad("ro-read", "WriteTo through a read-only handle: n=%d size=%d err=%v", n, tx.Size(), err)
			}
			cp := path + ".copy"
			if err := tx.CopyFile(cp, 0600); err != nil {
				bad("ro-read", "CopyFile through a read-only handle: %v", err)
			}
			os.Remove(cp)
			return nil
		})
		if err != nil {
			bad("ro-read", "View: %v", err)
		}
		// Commit of an (unmanaged) read-only transaction is refused; the transaction is then rolled back by hand
		if rtx, err := db.Begin(false); err != nil {
			bad("ro-read", "Begin(false): %v", err)
		} else {
			expectErr("Commit of a read-only transaction", rtx.Commit(), berrors.ErrTxNotWritable)
			_ = rtx.Rollback()
		}
		// compaction reads the read-only handle as its source
		if ci == 0 {
			dstp := path + ".compact"
			if ddb, err := exec.Open(dstp, gen.OpenOpts{}); err == nil {
				if err := bolt.Compact(ddb, db, 1000); err != nil {
					bad("ro-read", "Compact from a read-only handle: %v", err)
				}
				ddb.Close()
			}
			os.Remove(dstp)
		}
		if db2 != nil {
			if err := db2.Close(); err != nil {
				bad("ro-close", "close of the second handle: %v", err)
			}
		}
		if err := db.Close(); err != nil {
			bad("ro-close", "close: %v", err)
		}
		same(fmt.Sprintf("after read-only API use with %s", o))
	}
	hookMu.Lock()
	for _, op := range []string{"write", "truncate"} {
		if res.HookEvents[op] > 0 {
			bad("ro-io", "the read-only handles issued %d %s call(s) on the file", res.HookEvents[op], op)
		}
	}
	hookMu.Unlock()

	// ---- part D: memory handed out by read transactions (read-only handle and read-write handle)
	for _, ro := range []bool{true, false} {
		fmt.Printf("CASE memory ro=%v of %s\n", ro, filepath.Base(progFile))
		db, err := exec.Open(path, gen.OpenOpts{ReadOnly: ro, Freelist: srcOpts.Freelist, NoFreelistSync: srcOpts.NoFreelistSync})
		if err != nil {
			bad("ro-open", "open for the memory probes: %v", err)
			continue
		}
		var written []c17Probe
		budget := 400
		_ = db.View(func(tx *bolt.Tx) error {
			var walk func(b *bolt.Bucket, bp [][]byte)
			try := func(bp [][]byte, key, s []byte, kind string) {
				if len(s) == 0 || budget <= 0 {
					return
				}
				budget--
				res.Slices++
				orig := append([]byte(nil), s...)
				switch writeProbe(s) {
				case "fault":
					res.Faults++
				default:
					res.Copies++ // to be confirmed below: the stored content must be unchanged
					written = append(written, c17Probe{append([][]byte(nil), bp...), append([]byte(nil), key...), orig, kind})
				}
			}
			walk = func(b *bolt.Bucket, bp [][]byte) {
				c := b.Cursor()
				n := 0
				for k, v := c.First(); k != nil && n < 40; k, v = c.Next() {
					n++
					kc := append([]byte(nil), k...)
					if v == nil {
						if child := b.Bucket(kc); child != nil {
							try(bp, kc, k, "bucket-name")
							walk(child, append(append([][]byte(nil), bp...), kc))
						}
						continue
					}
					try(bp, kc, v, "cursor-value")
					try(bp, kc, k, "cursor-key")
					if g := b.Get(kc); g != nil {
						try(bp, kc, g, "get-value")
					}
				}
				_ = b.ForEach(func(k, v []byte) error {
					if n < 60 && v != nil {
						n++
						try(bp, append([]byte(nil), k...), v, "foreach-value")
					}
					return nil
				})
			}
			_ = tx.ForEach(func(name []byte, b *bolt.Bucket) error {
				nc := append([]byte(nil), name...)
				try(nil, nc, name, "root-bucket-name")
				walk(b, [][]byte{nc})
				return nil
			})
			return nil
		})
		// a write that did not fault must have hit a private copy: a fresh transaction sees the model's content
		_ = db.View(func(tx *bolt.Tx) error {
			got, _ := exec.DumpTx(tx, false)
			if d := model.DiffDumps(want, got); d != "" {
				bad("memory-writable", "after writing into slices returned by a read transaction (ro handle=%v; %d writes did not fault, e.g. %v) a fresh transaction sees changed content: %s", ro, len(written), probeKinds(written), d)
			}
			return nil
		})
		db.Close()
		same(fmt.Sprintf("after the memory probes (read-only handle=%v)", ro))
		_ = written
	}

	// ---- part C: the command-line tool's inspection commands
	if a.Bbolt != "" {
		bucket, key := "", ""
		for _, n := range m.Keys() {
			if sb, ok := m.Sub[n]; ok && isPrintable(n) {
				bucket = n
				for _, k := range sb.Keys() {
					if _, isKV := sb.KV[k]; isKV && isPrintable(k) {
						key = k
						break
					}
				}
				if key != "" {
					break
				}
			}
		}
		cmds := [][]string{
			{"check", path}, {"pages", path}, {"page", path, "0"}, {"page", path, "--all"}, {"dump", path, "0", "1", "2"},
			{"buckets", path}, {"stats", path}, {"inspect", path}, {"info", path},
		}
		if bucket != "" {
			cmds = append(cmds, []string{"keys", path, bucket})
			if key != "" {
				cmds = append(cmds, []string{"get", path, bucket, key})
			}
			cmds = append(cmds, []string{"keys", path, "no-such-bucket"}, []string{"get", path, bucket, "no-such-key"})
		}
		for _, cmd := range cmds {
			fmt.Printf("CASE cli %v\n", cmd[:1])
			name := cmd[0]
			if a.Strace {
				log := filepath.Join(a.Dir, fmt.Sprintf("c17-strace-%d-%d.txt", os.Getpid(), idx))
				args := append([]string{"-f", "-o", log, "-e", "trace=openat,write,pwrite64,pwritev,pwritev2,ftruncate,fallocate,truncate,unlink,unlinkat,rename,renameat,renameat2,chmod,fchmod,utimensat,close,mmap", a.Bbolt}, cmd...)
				_, _, terr := runCLI("strace", 120*time.Second, args...)
				if terr == nil {
					res.Straced++
					if v := straceVerdict(log, path); v != "" {
						bad("cli-syscall", "bbolt %s: %s", name, v)
					}
				}
				os.Remove(log)
			} else {
				out, code, terr := runCLI(a.Bbolt, 120*time.Second, cmd...)
				if terr != nil {
					continue
				}
				if code != 0 && !strings.Contains(strings.Join(cmd, " "), "no-such") {
					bad("cli-failed", "bbolt %s exited %d on a valid file: %s", strings.Join(cmd[:1], " "), code, tail(out, 200))
				}
			}
			res.CLI[name]++
			same("after bbolt " + name)
		}
	}
	res.FPs = append(res.FPs, fmt.Sprintf("ps=%d nfs=%v fl=%s faults=%v copies=%v", srcOpts.PageSize, srcOpts.NoFreelistSync, srcOpts.Freelist, res.Faults > 0, res.Copies > 0))
	res.Sample = fmt.Sprintf("%s: %d read-only opens, %d mutators refused, %d slices probed (%d faulted, %d private copies), CLI %v, hook events on the path %v",
		filepath.Base(progFile), res.ROOpens, res.Refusals, res.Slices, res.Faults, res.Copies, res.CLI, res.HookEvents)
	return
}

type c17Probe struct {
	path [][]byte
	key  []byte
	orig []byte
	kind string
}

func probeKinds(ps []c17Probe) []string {
	seen := map[string]bool{}
	var out []string
	for _, p := range ps {
		if !seen[p.kind] {
			seen[p.kind] = true
			out = append(out, p.kind)
		}
	}
	sort.Strings(out)
	return out
}

func isPrintable(s string) bool {
	if s == "" {
		return false
	}
	for _, c := range []byte(s) {
		if c < 0x21 || c > 0x7e || c == '\\' {
			return false
		}
	}
	return true
}

// straceVerdict parses an strace -f log: the database file must only ever be
// opened read-only and no write-type call may address one of its descriptors.
func straceVerdict(log, dbPath string) string {
	f, err := os.Open(log)
	if err != nil {
		return ""
	}
	defer f.Close()
	fds := map[string]bool{} // "pid:fd" -> refers to the database
	sc := bufio.NewScanner(f)
	sc.Buffer(make([]byte, 1<<20), 1<<26)
	for sc.Scan() {
		mm := wroteRE.FindStringSubmatch(sc.Text())
		if mm == nil {
			continue
		}
		pid, call, rest := mm[1], mm[2], mm[3]
		switch call {
		case "openat":
			if !strings.Contains(rest, `"`+dbPath+`"`) {
				// a descriptor number may be reused for another file
				if i := strings.LastIndex(rest, "= "); i >= 0 {
					if fd, err := strconv.Atoi(strings.TrimSpace(rest[i+2:])); err == nil {
						delete(fds, pid+":"+strconv.Itoa(fd))
					}
				}
				continue
			}
			if strings.Contains(rest, "O_WRONLY") || strings.Contains(rest, "O_RDWR") || strings.Contains(rest, "O_TRUNC") || strings.Contains(rest, "O_CREAT") {
				return "the database file was opened for writing: openat(" + rest
			}
			if i := strings.LastIndex(rest, "= "); i >= 0 {
				if fd, err := strconv.Atoi(strings.TrimSpace(rest[i+2:])); err == nil && fd >= 0 {
					// threads of one process share descriptors; strace -f shows thread ids: key by fd only
					fds["*:"+strconv.Itoa(fd)] = true
				}
			}
		case "close":
			if fd, err := strconv.Atoi(strings.TrimSpace(strings.SplitN(rest, ")", 2)[0])); err == nil {
				delete(fds, "*:"+strconv.Itoa(fd))
			}
		case "truncate", "unlink", "unlinkat", "rename", "renameat", "renameat2", "chmod", "utimensat":
			if strings.Contains(rest, `"`+dbPath+`"`) {
				return call + " on the database file: " + rest
			}
		case "mmap":
			// mmap(addr, len, prot, flags, fd, off): a mapping of the database must not be writable
			args := strings.Split(rest, ", ")
			if len(args) >= 5 {
				if fd, err := strconv.Atoi(strings.TrimSpace(args[4])); err == nil && fds["*:"+strconv.Itoa(fd)] && strings.Contains(args[2], "PROT_WRITE") {
					return "writable mapping of the database file: mmap(" + rest
				}
			}
		default: // write-type calls with the descriptor as first argument
			arg := strings.SplitN(rest, ",", 2)[0]
			if fd, err := strconv.Atoi(strings.TrimSpace(arg)); err == nil && fds["*:"+strconv.Itoa(fd)] {
				return call + " on a descriptor of the database file: " + call + "(" + rest
			}
		}
	}
	return ""
}

// ------------------------------------------------------------------ driver

func runC17(c *Ctx) int {
	bin := os.Getenv("VCHECK_BBOLT")
	if bin == "" {
		c.Inconclusive("bbolt CLI binary not built (VCHECK_BBOLT)")
	}
	if c.Replay != "" {
		b, err := os.ReadFile(c.Replay)
		if err != nil {
			fmt.Println("cannot read replay")
			return 2
		}
		var seqs struct {
			Seq []string `json:"lock_sequence"`
		}
		if json.Unmarshal(b, &seqs) == nil && len(seqs.Seq) > 0 {
			res := c17LockRes{Outcomes: map[string]int{}}
			a := c17LockArgs{Dir: c.Tmp, TimeoutMS: 150}
			if strings.Contains(seqs.Seq[0], ">") {
				runBlocking(&a, 0, seqs.Seq[0], &res)
			} else {
				runLockSeq(&a, 0, seqs.Seq, &res)
			}
			for _, m := range res.Bad {
				fmt.Printf("VIOLATION property=C17 replay=%s\n  %s\n", c.Replay, m)
			}
			if len(res.Bad) > 0 {
				return 1
			}
			fmt.Println("replay: no violation", res.Outcomes)
			return 0
		}
		a := c17ROArgs{Progs: []string{c.Replay}, Dir: c.Tmp, Bbolt: bin, Seed: c.Seed}
		r := c17ROOne(&a, 0, c.Replay)
		for _, m := range r.Bad {
			fmt.Printf("VIOLATION property=C17 replay=%s\n  [%s] %s\n", c.Replay, m.Kind, m.Msg)
		}
		if len(r.Bad) > 0 {
			return 1
		}
		fmt.Println("replay: no violation", r.Skipped)
		return 0
	}

	// ---- part A
	var seqs [][]string
	maxLen := c.Pick(3, 5)
	for n := 1; n <= maxLen; n++ {
		seqs = append(seqs, legalLockSeqs(n)...)
	}
	exhaustiveUpTo := maxLen
	if c.Quick() {
		// plus a seeded sample of the longer ones
		rr := rand.New(rand.NewSource(c.Seed + 1717))
		l4 := legalLockSeqs(4)
		rr.Shuffle(len(l4), func(i, j int) { l4[i], l4[j] = l4[j], l4[i] })
		seqs = append(seqs, l4[:120]...)
		l5 := legalLockSeqs(5)
		rr.Shuffle(len(l5), func(i, j int) { l5[i], l5[j] = l5[j], l5[i] })
		seqs = append(seqs, l5[:60]...)
	}
	blocking := []string{"Wp>Wp", "Wp>Rp", "Rp>Wp", "Ws>Wp", "Ws>Rp", "Rs>Wp"}
	nshard := c.Workers * 2
	lockRes := make([]c17LockRes, nshard)
	c.Parallel(nshard, func(si int) {
		var mine [][]string
		for i := si; i < len(seqs); i += nshard {
			mine = append(mine, seqs[i])
		}
		var blk []string
		for i := si; i < len(blocking); i += nshard {
			blk = append(blk, blocking[i])
		}
		res := c.RunChild("c17lock", c17LockArgs{Seqs: mine, Blocking: blk, Dir: c.Tmp, TimeoutMS: 150}, time.Duration(300+2*len(mine))*time.Second)
		got := false
		for _, l := range res.Lines {
			if json.Unmarshal([]byte(l), &lockRes[si]) == nil {
				got = true
			}
		}
		if !got {
			if res.TimedOut {
				c.Inconclusive("lock coordinator watchdog: " + res.LastLine)
			} else {
				rp := c.SaveReplay(fmt.Sprintf("lock-crash-%d.json", si), map[string]any{"last": res.LastLine})
				c.Report("crash:"+crashKind(res.Stderr), fmt.Sprintf("lock coordinator died (%s): %s", res.LastLine, tail(res.Stderr, 1000)), rp)
			}
		}
	})
	outcomes := map[string]int{}
	lockSeqs, opens, conflicts, blk := 0, 0, 0, 0
	for _, r := range lockRes {
		lockSeqs += r.Seqs
		opens += r.Opens
		conflicts += r.Conflicts
		blk += r.Blocking
		for k, v := range r.Outcomes {
			outcomes[k] += v
		}
		for i, m := range r.Bad {
			var sq []string
			if i < len(r.BadSeq) {
				sq = r.BadSeq[i]
			}
			rp := c.SaveReplay(fmt.Sprintf("lock-%s.json", strings.Join(sq, "-")), map[string]any{"lock_sequence": sq})
			c.Report("lock", m, rp)
		}
		for _, m := range r.Inconcl {
			c.Inconclusive(m)
		}
	}

	// ---- parts B, C, D
	n := c.Pick(32, 600)
	progs := apiPrograms(c.Seed+1700, n, []string{"buckets", "mixed", "structural", "big"}, func(i int, cfg *gen.Config) {
		cfg.ROProbe = 0
		cfg.Reopen = 0.1
		cfg.Txs = 7
		cfg.NoBigKeys = i%2 == 0
		cfg.Opts.NoFreelistSync = i%3 == 1
		cfg.Opts.Freelist = backends[(i/3)%2]
	})
	dir := filepath.Join(c.Tmp, "progs")
	_ = os.MkdirAll(dir, 0700)
	files := make([]string, len(progs))
	for i, p := range progs {
		files[i] = filepath.Join(dir, fmt.Sprintf("C17-%s-seed%d-case%d.json", p.Name, p.Seed, p.Case))
		b, _ := json.Marshal(p)
		_ = os.WriteFile(files[i], b, 0600)
	}
	batch := c.Pick(2, 10)
	nb := (len(files) + batch - 1) / batch
	roRes := make([][]c17RORes, nb)
	c.Parallel(nb, func(bi int) {
		lo, hi := bi*batch, (bi+1)*batch
		if hi > len(files) {
			hi = len(files)
		}
		rem := files[lo:hi]
		for len(rem) > 0 {
			// strace: thorough always; quick for the first batch only (it costs ~10x)
			res := c.RunChild("c17ro", c17ROArgs{Progs: rem, Dir: c.Tmp, Bbolt: bin, Strace: !c.Quick() && bi%4 == 0 || c.Quick() && bi == 0, Seed: c.Seed}, time.Duration(240+120*len(rem))*time.Second)
			for _, l := range res.Lines {
				var r c17RORes
				if json.Unmarshal([]byte(l), &r) == nil {
					roRes[bi] = append(roRes[bi], r)
				}
			}
			unf := res.Unfinished()
			if res.ExitErr == nil && len(unf) == 0 {
				break
			}
			idx := len(res.Finished)
			if len(unf) > 0 {
				fmt.Sscan(unf[0], &idx)
			}
			if idx >= len(rem) {
				c.Inconclusive(fmt.Sprintf("c17ro child failed outside a case: %v %s", res.ExitErr, tail(res.Stderr, 300)))
				break
			}
			if res.TimedOut {
				c.Inconclusive("watchdog fired in " + filepath.Base(rem[idx]))
			} else {
				rp := c.keepReplay(rem[idx])
				c.Report("crash:"+crashKind(res.Stderr), fmt.Sprintf("process died (%s): %s", res.LastLine, tail(res.Stderr, 1200)), rp)
			}
			rem = rem[idx+1:]
		}
	})
	fps := map[string]bool{}
	cli := map[string]int{}
	hook := map[string]int{}
	var samples []string
	tot := c17RORes{}
	files2, skipped := 0, 0
	for _, rs := range roRes {
		for _, r := range rs {
			if r.Skipped != "" {
				skipped++
				continue
			}
			files2++
			tot.ROOpens += r.ROOpens
			tot.Refusals += r.Refusals
			tot.Reads += r.Reads
			tot.Slices += r.Slices
			tot.Faults += r.Faults
			tot.Copies += r.Copies
			tot.Straced += r.Straced
			tot.IdentityCmp += r.IdentityCmp
			for k, v := range r.CLI {
				cli[k] += v
			}
			for k, v := range r.HookEvents {
				hook[k] += v
			}
			for _, f := range r.FPs {
				fps[f] = true
			}
			if len(samples) < 3 {
				samples = append(samples, r.Sample)
			}
			for _, b := range r.Bad {
				rp := c.keepReplay(r.File)
				c.Report(b.Kind, fmt.Sprintf("%s: %s", filepath.Base(r.File), b.Msg), rp)
			}
		}
	}
	for _, k := range []string{"check", "dump", "page", "pages", "keys", "get", "buckets", "stats", "inspect", "info"} {
		if bin != "" && cli[k] == 0 {
			c.Inconclusive("CLI command never exercised: " + k)
		}
	}
	if tot.Faults == 0 || tot.Copies == 0 {
		c.Inconclusive("memory probes did not see both outcomes (fault and private copy)")
	}
	if conflicts == 0 || blk == 0 || lockSeqs == 0 {
		c.Inconclusive("lock part observed no conflict")
	}
	var outl []string
	for k, v := range outcomes {
		outl = append(outl, fmt.Sprintf("%s x%d", k, v))
	}
	sort.Strings(outl)
	samples = append(samples, fmt.Sprintf("lock sequences such as %v, %v; blocking scenarios %v", seqs[len(seqs)/3], seqs[len(seqs)-1], blocking))
	cov := map[string]any{
		"evaluations":                     lockSeqs + blk + files2,
		"distinct_nontrivial":             len(outcomes) + len(fps),
		"rule":                            fmt.Sprintf("part A: every legal sequence of length <= %d over {open read-write / read-only in a separate process / in the same process (Timeout 150 ms), close oldest / newest holder} (quick adds a seeded sample of lengths 4 and 5), each on a fresh file and followed by 'all closed => read-write open succeeds'; the lock model (writer xor readers) decides acquired vs ErrTimeout for every open; 6 blocking scenarios (open without timeout while a conflicting holder holds: must not return before the holder closes, must acquire afterwards). Distinct = distinct (event, holders held, outcome class). parts B-D on files of generated histories (4 page sizes, both backends, freelist persisted or not): 5 read-only option combinations x {Begin(true)/Update/Batch and every Tx/Bucket/Cursor mutator must be refused with the documented error, dump == model, Tx.Check, Page, WriteTo/CopyFile/Compact elsewhere, Sync/Stats/Info, a second read-only handle}; file SHA-256 + length + mtime before/after each step and zero write/truncate events at the I/O hook; CLI check, pages, page, page --all, dump, buckets, stats, inspect, info, keys, get with identity comparison (and under strace: database opened O_RDONLY only, no write-type syscall on its descriptors, no PROT_WRITE mapping); one byte of up to 400 key/value/name slices per handle flipped under SetPanicOnFault: fault or private copy, afterwards a fresh transaction must equal the model and the file identity must be unchanged.", exhaustiveUpTo),
		"samples":                         samples,
		"lock_sequences":                  lockSeqs,
		"lock_sequences_exhaustive_up_to": exhaustiveUpTo,
		"lock_opens_judged":               opens,
		"lock_conflicts_expected":         conflicts,
		"lock_blocking_scenarios":         blk,
		"lock_outcomes":                   outl,
		"ro_files":                        files2,
		"ro_opens":                        tot.ROOpens,
		"mutators_refused":                tot.Refusals,
		"ro_dumps_compared":               tot.Reads,
		"file_identity_comparisons":       tot.IdentityCmp,
		"hook_events_on_ro_paths":         hook,
		"cli_commands":                    cli,
		"cli_runs_under_strace":           tot.Straced,
		"slices_written_into":             tot.Slices,
		"of_which_faulted":                tot.Faults,
		"of_which_private_copy":           tot.Copies,
		"skipped":                         skipped,
	}
	return c.Finish("exploration", cov, []string{
		"advisory flock semantics of this kernel and file system (tmpfs/ext4); other platforms are not exercised",
		"a conflicting open is given 150 ms; 'must time out' is decided by the returned error class, not by measuring time; 'must not acquire while held' is observed for 250 ms (can miss, cannot accuse wrongly)",
		"mtime is set 48 h into the past before the read-only use so that any modification is visible regardless of clock granularity",
	})
}
