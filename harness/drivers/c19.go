package drivers

import (
	"encoding/json"
	"fmt"
	"math/rand"
	"os"
	"path/filepath"
	"sort"
	"strings"
	"time"

	bolt "go.etcd.io/bbolt"
	"go.etcd.io/bbolt/verifh/decode"
	"go.etcd.io/bbolt/verifh/exec"
	"go.etcd.io/bbolt/verifh/gen"
)

// C19 — the integrity check finds structural corruption and only that.
//
// (a) silence: Tx.Check (both freelist backends) and `bbolt check` on the
//     final files of generated histories must report nothing / exit 0.
// (b) sweep: for base databases, every eligible target of every corruption
//     class (decode.Mutants) is applied to a copy; the independent decoder D
//     must confirm the class; then Tx.Check (array and hashmap backend, in
//     this child process, every reported error announced at once) must emit
//     at least one error and `bbolt check` must exit non-zero.
// A check process that reports and then dies satisfies the property as
// stated and is tallied separately; so is one that dies with a diagnostic
// (assertion/panic text and non-zero status) before Tx.Check could report:
// neither is silent. Only "no error and exit 0" refutes the property.

func init() {
	Drivers["C19"] = runC19
	ChildModes["c19"] = childC19
}

type c19Args struct {
	Prog     string `json:"prog"`
	Dir      string `json:"dir"`
	Bbolt    string `json:"bbolt"`
	Seed     int64  `json:"seed"`
	PerClass int    `json:"per_class"` // 0 = every eligible target
	StartAt  int    `json:"start_at"`  // resume after a crash
	Silence  bool   `json:"silence"`   // only the good-file part
}

type c19Res struct {
	Prog        string         `json:"prog"`
	Skipped     string         `json:"skipped,omitempty"`
	Pages       int            `json:"pages"`
	FreeIDs     int            `json:"free_ids"`
	Enumerated  map[string]int `json:"enumerated"` // eligible targets per class
	Evaluated   map[string]int `json:"evaluated"`  // mutants evaluated per class
	Pure        int            `json:"pure"`
	NotConfirm  map[string]int `json:"not_confirmed"`
	Reported    map[string]int `json:"reported"` // per checker: lib-array, lib-hashmap, cli
	OpenReject  int            `json:"open_rejected"`
	FPs         map[string]int `json:"fps"`
	Missed      []c19Miss      `json:"missed,omitempty"`
	GoodChecks  int            `json:"good_checks"`
	GoodBad     []string       `json:"good_bad,omitempty"`
	Sample      []string       `json:"sample,omitempty"`
	NextIndex   int            `json:"next_index"`
	ErrKinds    map[string]int `json:"err_kinds"`
	BaseSummary string         `json:"base_summary"`
}

type c19Miss struct {
	Class   string `json:"class"`
	Target  string `json:"target"`
	Checker string `json:"checker"`
	Detail  string `json:"detail"`
}

// libCheck opens path read-only like the CLI does and runs Tx.Check. The
// first reported error is announced on stdout before the walk continues.
func libCheck(path, backend string, announce func()) (errs []string, openErr string) {
	defer func() {
		if x := recover(); x != nil {
			// a panic while opening or checking is a report, not silence
			errs = append(errs, fmt.Sprintf("panic: %v", x))
			announce()
		}
	}()
	db, err := exec.Open(path, gen.OpenOpts{ReadOnly: true, PreLoadFreelist: true, Freelist: backend})
	if err != nil {
		return nil, err.Error()
	}
	defer db.Close()
	_ = db.View(func(tx *bolt.Tx) error {
		for e := range tx.Check() {
			if len(errs) == 0 {
				announce()
			}
			if len(errs) < 20 {
				errs = append(errs, e.Error())
			}
		}
		return nil
	})
	return
}

func childC19(argfile string) {
	var a c19Args
	ReadArgs(argfile, &a)
	ChildStart("0")
	ChildDone("0", c19One(&a))
}

func c19One(a *c19Args) (res c19Res) {
	res = c19Res{Prog: a.Prog, Enumerated: map[string]int{}, Evaluated: map[string]int{}, NotConfirm: map[string]int{}, Reported: map[string]int{}, FPs: map[string]int{}, ErrKinds: map[string]int{}}
	p, err := loadProgram(a.Prog)
	if err != nil {
		res.Skipped = err.Error()
		return
	}
	base := filepath.Join(a.Dir, fmt.Sprintf("c19-base-%d.db", os.Getpid()))
	work := filepath.Join(a.Dir, fmt.Sprintf("c19-mut-%d.db", os.Getpid()))
	defer os.Remove(base)
	defer os.Remove(work)
	r := exec.NewRunner(base, exec.Monitors{})
	if v := r.Run(p); len(v) > 0 {
		res.Skipped = "history failed: " + v[0].String()
		return
	}
	img, err := os.ReadFile(base)
	if err != nil {
		res.Skipped = err.Error()
		return
	}
	d := decode.Decode(img, decode.Options{NoContent: true})
	if len(d.Errors) > 0 {
		res.Skipped = "base file is not clean for D (C07's domain): " + d.Errors[0]
		return
	}
	res.Pages = int(d.Meta.Pgid)
	res.FreeIDs = len(d.Free)
	res.BaseSummary = fmt.Sprintf("%s: %d pages (%d branch, %d leaf, %d overflow), %d buckets (%d inline), %d free ids, freelist persisted=%v, page size %d",
		filepath.Base(a.Prog), d.Meta.Pgid, d.BranchN, d.LeafN, d.OverflowN, d.BucketN, d.InlineN, len(d.Free), d.HasFreelist, d.PageSize)

	// ---- (a) silence on the good file
	quiet := func() {}
	for _, be := range backends {
		errs, oerr := libCheck(base, be, quiet)
		res.GoodChecks++
		if oerr != "" {
			res.GoodBad = append(res.GoodBad, fmt.Sprintf("good file does not open (%s): %s", be, oerr))
		} else if len(errs) > 0 {
			res.GoodBad = append(res.GoodBad, fmt.Sprintf("Tx.Check (%s backend) reports on a file produced by committed transactions: %s", be, errs[0]))
		}
	}
	if a.Bbolt != "" {
		out, code, terr := runCLI(a.Bbolt, 120*time.Second, "check", base)
		res.GoodChecks++
		if terr == nil && (code != 0 || !strings.Contains(out, "OK")) {
			res.GoodBad = append(res.GoodBad, fmt.Sprintf("`bbolt check` exits %d on a file produced by committed transactions: %s", code, tail(out, 300)))
		}
	}
	if a.Silence {
		return
	}

	// ---- (b) enumerate, then sample per class (deterministic), then evaluate
	type slot struct {
		idx   int
		class string
	}
	var all []slot
	i := 0
	decode.Mutants(img, d, func(m decode.Mutant) bool {
		res.Enumerated[m.Class]++
		all = append(all, slot{i, m.Class})
		i++
		return true
	})
	chosen := map[int]bool{}
	if a.PerClass <= 0 {
		for _, s := range all {
			chosen[s.idx] = true
		}
	} else {
		by := map[string][]int{}
		for _, s := range all {
			by[s.class] = append(by[s.class], s.idx)
		}
		rr := rand.New(rand.NewSource(a.Seed*977 + int64(len(all))))
		for _, cls := range decode.Classes {
			l := by[cls]
			rr.Shuffle(len(l), func(i, j int) { l[i], l[j] = l[j], l[i] })
			for k := 0; k < len(l) && k < a.PerClass; k++ {
				chosen[l[k]] = true
			}
		}
	}
	idx := -1
	decode.Mutants(img, d, func(m decode.Mutant) bool {
		idx++
		res.NextIndex = idx + 1
		if idx < a.StartAt || !chosen[idx] {
			return true
		}
		// D must confirm the class on the mutated image
		mimg := m.Apply(img)
		md := decode.Decode(mimg, decode.Options{NoContent: true})
		got := decode.ClassOf(md.Errors)
		want := m.Class
		if k := strings.IndexByte(want, ':'); k >= 0 {
			want = want[:k]
		}
		if !got[want] {
			res.NotConfirm[m.Class]++
			return true
		}
		if m.Pure {
			// a pure mutant shows nothing but its own class to D
			for k := range got {
				if k != want {
					m.Pure = false
				}
			}
		}
		if err := os.WriteFile(work, mimg, 0600); err != nil {
			res.Skipped = err.Error()
			return false
		}
		res.Evaluated[m.Class]++
		if m.Pure {
			res.Pure++
		}
		shape := ""
		for _, be := range backends {
			chk := "lib-" + be
			fmt.Printf("MUT %d %s [%s] %s\n", idx, chk, m.Class, m.Target)
			errs, oerr := libCheck(work, be, func() { fmt.Printf("REP %d %s\n", idx, chk) })
			switch {
			case oerr != "":
				res.OpenReject++
				res.Reported[chk]++
				shape += "R"
			case len(errs) > 0:
				res.Reported[chk]++
				res.ErrKinds[errKind(errs[0])]++
				shape += "E"
			default:
				shape += "-"
				if len(res.Missed) < 20 {
					res.Missed = append(res.Missed, c19Miss{m.Class, m.Target, chk, "Tx.Check reported nothing; D says: " + md.Errors[0]})
				}
			}
		}
		if a.Bbolt != "" {
			fmt.Printf("MUT %d cli [%s] %s\n", idx, m.Class, m.Target)
			out, code, terr := runCLI(a.Bbolt, 120*time.Second, "check", work)
			switch {
			case terr != nil:
				shape += "?"
			case code != 0:
				res.Reported["cli"]++
				shape += "E"
				if strings.Contains(out, "OK\n") && !strings.Contains(out, "errors found") {
					res.Missed = append(res.Missed, c19Miss{m.Class, m.Target, "cli", "non-zero exit but prints OK: " + tail(out, 200)})
				}
			default:
				shape += "-"
				if len(res.Missed) < 20 {
					res.Missed = append(res.Missed, c19Miss{m.Class, m.Target, "cli", fmt.Sprintf("`bbolt check` exit 0 (%s); D says: %s", tail(strings.TrimSpace(out), 120), md.Errors[0])})
				}
			}
		}
		fp := fmt.Sprintf("ps=%d %s pure=%v %s", d.PageSize, m.Class, m.Pure, shape)
		res.FPs[fp]++
		if len(res.Sample) < 2 {
			res.Sample = append(res.Sample, fmt.Sprintf("[%s] %s -> D: %s", m.Class, m.Target, md.Errors[0]))
		}
		return true
	})
	return
}

func errKind(e string) string {
	for _, k := range []string{"unreachable unfreed", "reachable freed", "multiple references", "already freed", "invalid type", "out of bounds", "needs to be", "unexpected page type", "panic"} {
		if strings.Contains(e, k) {
			return k
		}
	}
	return "other"
}

func runC19(c *Ctx) int {
	bin := os.Getenv("VCHECK_BBOLT")
	if bin == "" {
		c.Inconclusive("bbolt CLI binary not built (VCHECK_BBOLT)")
	}
	if c.Replay != "" {
		// a replay goes through the same child-process protocol as the sweep (a checking process may die on a mutant)
		start, bad := 0, 0
		for attempt := 0; attempt < 400; attempt++ {
			res := c.RunChild("c19", c19Args{Prog: c.Replay, Dir: c.Tmp, Bbolt: bin, Seed: c.Seed, StartAt: start}, 40*time.Minute)
			for _, l := range res.Lines {
				var r c19Res
				if json.Unmarshal([]byte(l), &r) != nil {
					continue
				}
				for _, m := range r.Missed {
					bad++
					fmt.Printf("VIOLATION property=C19 replay=%s\n  [missed:%s:%s] %s: %s\n", c.Replay, m.Class, m.Checker, m.Target, m.Detail)
				}
				for _, g := range r.GoodBad {
					bad++
					fmt.Printf("VIOLATION property=C19 replay=%s\n  [false-report] %s\n", c.Replay, g)
				}
				fmt.Println("replay:", r.Skipped, r.Evaluated)
			}
			if res.ExitErr == nil && len(res.Unfinished()) == 0 {
				break
			}
			var n int
			var kind, chk string
			if k, _ := fmt.Sscanf(res.LastLine, "%s %d %s", &kind, &n, &chk); k < 3 {
				fmt.Println("replay: child died outside a mutant:", tail(res.Stderr, 300))
				return 2
			}
			fmt.Printf("replay: the checking process died on mutant %d (%s)\n", n, res.LastLine)
			start = n + 1
		}
		if bad > 0 {
			return 1
		}
		return 0
	}
	nSweep := c.Pick(12, 16)
	nSilence := c.Pick(120, 6000)
	perClass := c.Pick(10, 0)
	// bases for the sweep: small databases with splits, overflow, nested and inline buckets, persisted freelist
	sweep := apiPrograms(c.Seed+1900, nSweep, []string{"structural", "buckets", "mixed", "bigkeys"}, func(i int, cfg *gen.Config) {
		cfg.PageSize = []int{1024, 4096, 1024, 2048}[i%4]
		cfg.Opts.NoFreelistSync = i%6 == 5
		cfg.Reopen, cfg.ROProbe, cfg.Rollback = 0.1, 0, 0.1
		cfg.Txs = 7
		cfg.NoBigKeys = cfg.Profile != "bigkeys"
		cfg.KeySpace = 260
	})
	// hand-shaped bases guarantee every class an eligible target whatever the seed: several paged buckets (also nested),
	// branch pages, overflow values, an inline bucket, free pages on a persisted list
	for i := 0; i < len(sweep); i += 2 {
		sweep[i] = c19ShapedBase(c.Seed+1902, i, []int{1024, 4096, 2048}[(i/2)%3], backends[(i/2)%2])
	}
	silence := apiPrograms(c.Seed+1901, nSilence, []string{"mixed", "buckets", "big", "structural", "overwrite"}, func(i int, cfg *gen.Config) {
		cfg.ROProbe = 0
	})
	dir := filepath.Join(c.Tmp, "progs")
	_ = os.MkdirAll(dir, 0700)
	type job struct {
		file    string
		silence bool
	}
	var jobs []job
	for _, p := range sweep {
		f := filepath.Join(dir, fmt.Sprintf("C19-sweep-%s-seed%d-case%d.json", p.Name, p.Seed, p.Case))
		b, _ := json.Marshal(p)
		_ = os.WriteFile(f, b, 0600)
		jobs = append(jobs, job{f, false})
	}
	for _, p := range silence {
		f := filepath.Join(dir, fmt.Sprintf("C19-good-%s-seed%d-case%d.json", p.Name, p.Seed, p.Case))
		b, _ := json.Marshal(p)
		_ = os.WriteFile(f, b, 0600)
		jobs = append(jobs, job{f, true})
	}
	results := make([][]c19Res, len(jobs))
	type crash struct {
		file, last, stderr string
		reported           bool
	}
	var crashes []crash
	var crashMu = make(chan struct{}, 1)
	crashMu <- struct{}{}
	c.Parallel(len(jobs), func(ji int) {
		j := jobs[ji]
		start := 0
		for attempt := 0; attempt < 400; attempt++ {
			res := c.RunChild("c19", c19Args{Prog: j.file, Dir: c.Tmp, Bbolt: bin, Seed: c.Seed, PerClass: perClass, StartAt: start, Silence: j.silence}, 40*time.Minute)
			for _, l := range res.Lines {
				var r c19Res
				if json.Unmarshal([]byte(l), &r) == nil {
					results[ji] = append(results[ji], r)
				}
			}
			if res.ExitErr == nil && len(res.Unfinished()) == 0 {
				return
			}
			if res.TimedOut {
				c.Inconclusive("watchdog fired in " + filepath.Base(j.file))
				return
			}
			// the child died inside a mutant: LastLine tells which one and whether it had reported
			var n int
			var kind, chk string
			if k, _ := fmt.Sscanf(res.LastLine, "%s %d %s", &kind, &n, &chk); k < 3 || (kind != "MUT" && kind != "REP") {
				c.Inconclusive(fmt.Sprintf("c19 child died outside a mutant (%s): %v %s", filepath.Base(j.file), res.ExitErr, tail(res.Stderr, 400)))
				return
			}
			<-crashMu
			crashes = append(crashes, crash{j.file, res.LastLine, tail(res.Stderr, 900), kind == "REP"})
			crashMu <- struct{}{}
			start = n + 1
		}
	})
	fps := map[string]int{}
	enum, eval, notc, rep, kinds := map[string]int{}, map[string]int{}, map[string]int{}, map[string]int{}, map[string]int{}
	var samples []string
	good, pure, openRej, bases, skipped := 0, 0, 0, 0, 0
	for ji, rs := range results {
		for _, r := range rs {
			if r.Skipped != "" {
				skipped++
				if skipped <= 3 {
					fmt.Println("note: skipped:", r.Skipped)
				}
				continue
			}
			good += r.GoodChecks
			for _, g := range r.GoodBad {
				rp := c.keepReplay(r.Prog)
				c.Report("false-report", fmt.Sprintf("%s: %s", filepath.Base(r.Prog), g), rp)
			}
			if jobs[ji].silence {
				continue
			}
			bases++
			pure += r.Pure
			openRej += r.OpenReject
			for k, v := range r.Enumerated {
				// resumed children enumerate again: count once per base
				if enum[jobs[ji].file+k] == 0 {
					enum[jobs[ji].file+k] = v
				}
			}
			for k, v := range r.Evaluated {
				eval[k] += v
			}
			for k, v := range r.NotConfirm {
				notc[k] += v
			}
			for k, v := range r.Reported {
				rep[k] += v
			}
			for k, v := range r.ErrKinds {
				kinds[k] += v
			}
			for k, v := range r.FPs {
				fps[k] += v
			}
			if len(samples) < 6 {
				if r.BaseSummary != "" && len(samples) < 2 {
					samples = append(samples, r.BaseSummary)
				}
				samples = append(samples, r.Sample...)
			}
			for _, m := range r.Missed {
				rp := c.keepReplay(r.Prog)
				c.Report("missed:"+m.Class+":"+m.Checker, fmt.Sprintf("%s: %s: %s", filepath.Base(r.Prog), m.Target, m.Detail), rp)
			}
		}
	}
	// A checking process that dies on a corrupted file is not silent: it ends with a non-zero status and a
	// diagnostic. Such mutants are tallied separately (reported first / died with a diagnostic naming the
	// problem); a death without any diagnostic cannot be judged and is inconclusive.
	reportedThenDied, diedWithDiagnostic := 0, 0
	var diedSamples []string
	for _, cr := range crashes {
		switch {
		case cr.reported:
			reportedThenDied++
		case strings.Contains(cr.stderr, "assertion failed") || strings.Contains(cr.stderr, "panic:") || strings.Contains(cr.stderr, "fatal error") || strings.Contains(cr.stderr, "SIGSEGV") || strings.Contains(cr.stderr, "SIGBUS"):
			diedWithDiagnostic++
			if len(diedSamples) < 3 {
				diedSamples = append(diedSamples, cr.last+" -> "+tail(cr.stderr, 160))
			}
		default:
			c.Inconclusive(fmt.Sprintf("%s: the checking process died without a diagnostic (%s)", filepath.Base(cr.file), cr.last))
		}
	}
	enumTot := map[string]int{}
	for k, v := range enum {
		for _, cls := range decode.Classes {
			if strings.HasSuffix(k, cls) {
				enumTot[cls] += v
			}
		}
	}
	total := 0
	for _, cls := range decode.Classes {
		total += eval[cls]
		if eval[cls] == 0 {
			c.Inconclusive("no confirmed mutant of class " + cls)
		}
	}
	nontriv := 0
	for k := range fps {
		if !strings.HasSuffix(k, "---") {
			nontriv++
		}
	}
	var fpl []string
	for k, v := range fps {
		fpl = append(fpl, fmt.Sprintf("%s x%d", k, v))
	}
	sort.Strings(fpl)
	cov := map[string]any{
		"evaluations":                        total + good,
		"distinct_nontrivial":                nontriv,
		"rule":                               "bases = final files of generated histories (page sizes 1024/2048/4096, splits, overflow values, nested and inline buckets, freelist persisted; every 6th without a persisted list); decode.Mutants enumerates every eligible target of each class: free id removed (unreachable-unfreed), free id duplicated (double-free), first page / each overflow page of a reachable allocation added to the list (reachable-free), bucket root pointer redirected to another bucket's root with the orphaned tree put on the freelist (pure double reference), branch element redirected to its sibling's page (double reference), reachable page's flags set to each of 6 values with neither the branch nor the leaf bit (bad type), neighbouring keys of a leaf / a branch swapped, made equal, or the first byte raised (key order inside a page), first key lowered below / last key raised above the parent's separators, and last key of a last child raised above the bound a higher ancestor assigns (key order against parent and ancestors; bases have three-level trees). quick evaluates a seeded sample of 10 targets per class and base, thorough every target. A mutant counts only if D confirms its class on the mutated image. Oracles: Tx.Check (read-only open with preloaded freelist, array and hashmap backend) emits >= 1 error and `bbolt check` exits non-zero; on the unmutated files of all histories both report nothing / exit 0 with OK. Non-trivial fingerprint = (page size, class, pure, outcome per checker) with at least one checker reporting.",
		"samples":                            samples,
		"bases":                              bases,
		"eligible_targets_per_class":         enumTot,
		"mutants_evaluated_per_class":        eval,
		"pure_single_corruption_mutants":     pure,
		"not_confirmed_by_D_per_class":       notc,
		"reported_per_checker":               rep,
		"first_error_kinds":                  kinds,
		"open_rejected":                      openRej,
		"reported_then_died":                 reportedThenDied,
		"died_with_diagnostic_before_report": diedWithDiagnostic,
		"died_samples":                       diedSamples,
		"good_file_checks":                   good,
		"outcome_fingerprints":               fpl,
		"skipped":                            skipped,
		"exhaustive":                         perClass == 0,
	}
	return c.Finish("fault_enumeration", cov, []string{
		"D (harness/decode) decides whether a mutated image is corrupt in the listed class; mutants D does not confirm are not counted",
		"bad-type mutants use flag values with neither the branch nor the leaf bit; key-order mutants never target the content of inline buckets (not a page)",
		"a double reference is never pointed at an ancestor (a cycle would be a different fault)",
	})
}

// c19ShapedBase builds a base history with a fixed repertoire of structures and seeded sizes.
func c19ShapedBase(seed int64, caseNo int, ps int, fl string) *gen.Program {
	r := rand.New(rand.NewSource(seed*1000003 + int64(caseNo)*7919 + 19))
	p := &gen.Program{Name: "shaped", Seed: seed, Case: caseNo}
	add := func(st gen.Step) { p.Steps = append(p.Steps, st) }
	o := gen.OpenOpts{PageSize: ps, Freelist: fl}
	add(gen.Step{Op: "open", Opts: &o})
	add(gen.Step{Op: "begin", W: true})
	add(gen.Step{Op: "create", N: 0})
	add(gen.Step{Op: "create", N: 1})
	add(gen.Step{Op: "create", P: []int{0}, N: 2})
	add(gen.Step{Op: "create", P: []int{1}, N: 3})
	add(gen.Step{Op: "create", P: []int{0, 2}, N: 4})
	put := func(path []int, id, vlen int) {
		add(gen.Step{Op: "put", P: path, K: &gen.K{ID: id}, V: &gen.V{Seed: r.Uint32(), Len: vlen}})
	}
	n0 := 100 + r.Intn(80)
	for i := 0; i < n0; i++ {
		put([]int{0}, i, ps/8+r.Intn(ps/8))
	}
	for i := 0; i < 40+r.Intn(40); i++ {
		put([]int{1}, i*3, ps/10)
	}
	for i := 0; i < 3; i++ {
		put([]int{1}, 1000+i, ps+r.Intn(2*ps)) // overflow values
	}
	for i := 0; i < 30+r.Intn(30); i++ {
		put([]int{0, 2}, i, ps/6)
	}
	// a bucket with long keys: small branch fan-out, so the tree gets three levels and inner branch pages
	// whose last child takes its upper bound from the root
	add(gen.Step{Op: "create", N: 5})
	nlong := map[int]int{1024: 140, 2048: 260, 4096: 900}[ps]
	for i := 0; i < nlong+r.Intn(40); i++ {
		add(gen.Step{Op: "put", P: []int{5}, K: &gen.K{ID: i, Len: 90 + r.Intn(50)}, V: &gen.V{Seed: r.Uint32(), Len: 20 + r.Intn(30)}})
	}
	put([]int{1, 3}, 1, 10) // stays inline
	put([]int{1, 3}, 2, 10)
	for i := 0; i < 20; i++ {
		put([]int{0, 2, 4}, i, ps/5)
	}
	add(gen.Step{Op: "setSeq", P: []int{0, 2}, U: 7})
	add(gen.Step{Op: "commit"})
	add(gen.Step{Op: "begin", W: true})
	add(gen.Step{Op: "delRange", P: []int{0}, K: &gen.K{ID: 0}, K2: &gen.K{ID: 20 + r.Intn(30), Len: 40}})
	put([]int{1}, 1001, ps+r.Intn(ps))
	add(gen.Step{Op: "commit"})
	add(gen.Step{Op: "begin", W: true})
	put([]int{0}, 5000, 20)
	add(gen.Step{Op: "commit"})
	add(gen.Step{Op: "close"})
	return p
}
