package drivers

import (
	"bytes"
	"compress/gzip"
	"crypto/sha256"
	"encoding/json"
	"fmt"
	"io"
	"os"
	"path/filepath"

	bolt "go.etcd.io/bbolt"
	"go.etcd.io/bbolt/verifh/decode"
	"go.etcd.io/bbolt/verifh/exec"
	"go.etcd.io/bbolt/verifh/gen"
	"go.etcd.io/bbolt/verifh/model"
)

func init() {
	Drivers["C12"] = runC12
	ChildModes["golden"] = childGolden
}

type goldenEntry struct {
	Name     string   `json:"name"`
	PageSize int      `json:"page_size"`
	Size     int      `json:"size"`
	SHA256   string   `json:"sha256"`
	DumpSHA  string   `json:"dump_sha256"`
	DumpLen  int      `json:"dump_lines"`
	Dump     []string `json:"dump"`
	What     string   `json:"what"`
}

type goldenArgs struct {
	Dir     string        `json:"dir"`
	Tmp     string        `json:"tmp"`
	Entries []goldenEntry `json:"entries"`
}

type goldenRes struct {
	Name     string   `json:"name"`
	Problems []string `json:"problems"`
	Pages    int      `json:"pages"`
	Lines    int      `json:"lines"`
	FreeIDs  int      `json:"free_ids"`
}

func dumpSHA(d []string) string {
	h := sha256.New()
	for _, l := range d {
		h.Write([]byte(l))
		h.Write([]byte{'\n'})
	}
	return fmt.Sprintf("%x", h.Sum(nil))
}

func gunzipFile(path string) ([]byte, error) {
	f, err := os.Open(path)
	if err != nil {
		return nil, err
	}
	defer f.Close()
	zr, err := gzip.NewReader(f)
	if err != nil {
		return nil, err
	}
	return io.ReadAll(zr)
}

// checkGolden verifies one golden file with D and with the current build.
func checkGolden(e goldenEntry, dir, tmp string) goldenRes {
	res := goldenRes{Name: e.Name}
	bad := func(f string, a ...any) { res.Problems = append(res.Problems, fmt.Sprintf(f, a...)) }
	img, err := gunzipFile(filepath.Join(dir, e.Name+".db.gz"))
	if err != nil {
		bad("cannot read golden file: %v", err)
		return res
	}
	if fmt.Sprintf("%x", sha256.Sum256(img)) != e.SHA256 {
		bad("golden file hash differs from its manifest entry (corpus damaged)")
		return res
	}
	// 1. independent decoder
	d := decode.Decode(img, decode.Options{})
	for _, x := range d.Errors {
		bad("D: %s", x)
		break
	}
	res.Pages = int(d.Meta.Pgid)
	res.FreeIDs = len(d.Free)
	if d.Content != nil {
		dd := exec.ModelDump(d.Content)
		res.Lines = len(dd)
		if dumpSHA(dd) != e.DumpSHA {
			bad("D decodes the golden file to a different content than recorded (%d lines vs %d)", len(dd), e.DumpLen)
			if e.Dump != nil {
				bad("  %s", model.DiffDumps(e.Dump, dd))
			}
		}
	}
	// 2. current build, read-only
	p := filepath.Join(tmp, e.Name+".db")
	if err := os.WriteFile(p, img, 0600); err != nil {
		bad("write: %v", err)
		return res
	}
	defer os.Remove(p)
	for _, ro := range []bool{true, false} {
		db, err := bolt.Open(p, 0600, &bolt.Options{ReadOnly: ro})
		if err != nil {
			bad("open (readonly=%v) by the current build: %v", ro, err)
			continue
		}
		_ = db.View(func(tx *bolt.Tx) error {
			got, probs := exec.DumpTx(tx, true)
			for _, x := range probs {
				bad("read paths disagree: %s", x)
			}
			if dumpSHA(got) != e.DumpSHA {
				bad("current build (readonly=%v) reads a different content than the pinned build recorded: %d lines vs %d", ro, len(got), e.DumpLen)
				if e.Dump != nil {
					bad("  %s", model.DiffDumps(e.Dump, got))
				}
			}
			if errs := exec.CheckTx(tx); len(errs) > 0 {
				bad("Tx.Check on golden file: %s", errs[0])
			}
			return nil
		})
		if !ro {
			// the file must also accept a write by the current build and still decode
			err := db.Update(func(tx *bolt.Tx) error {
				b, err := tx.CreateBucketIfNotExists([]byte("golden-probe"))
				if err != nil {
					return err
				}
				return b.Put([]byte("k"), []byte("v"))
			})
			if err != nil {
				bad("write to golden copy: %v", err)
			}
		}
		db.Close()
	}
	if img2, err := os.ReadFile(p); err == nil {
		d2 := decode.Decode(img2, decode.Options{})
		for _, x := range d2.Errors {
			bad("D after a write by the current build: %s", x)
			break
		}
		if d2.Content != nil {
			if pb := d2.Content.Sub["golden-probe"]; pb == nil || string(pb.KV["k"]) != "v" {
				bad("D does not find the key written by the current build")
			} else {
				delete(d2.Content.Sub, "golden-probe")
				if dumpSHA(exec.ModelDump(d2.Content)) != e.DumpSHA {
					bad("content changed by an unrelated write")
				}
			}
		}
	}
	return res
}

func childGolden(argfile string) {
	var a goldenArgs
	ReadArgs(argfile, &a)
	for _, e := range a.Entries {
		ChildStart(e.Name)
		ChildDone(e.Name, checkGolden(e, a.Dir, a.Tmp))
	}
}

// bigFreelist makes the current build write a freelist with more than 65535
// ids and checks D's reading of it (0xFFFF count convention).
func bigFreelist(c *Ctx, cov map[string]any) {
	path := filepath.Join(c.Tmp, "ffff.db")
	defer os.Remove(path)
	db, err := bolt.Open(path, 0600, &bolt.Options{PageSize: 1024, NoSync: true})
	if err != nil {
		c.Inconclusive("bigFreelist open: " + err.Error())
		return
	}
	val := bytes.Repeat([]byte{'v'}, 700)
	for batch := 0; batch < 7; batch++ {
		_ = db.Update(func(tx *bolt.Tx) error {
			b, _ := tx.CreateBucketIfNotExists([]byte("bulk"))
			for i := 0; i < 10000; i++ {
				_ = b.Put([]byte(fmt.Sprintf("key%07d", batch*10000+i)), val)
			}
			return nil
		})
	}
	_ = db.Update(func(tx *bolt.Tx) error {
		k, _ := tx.CreateBucket([]byte("keep"))
		_ = k.Put([]byte("a"), []byte("1"))
		return tx.DeleteBucket([]byte("bulk"))
	})
	_ = db.Update(func(tx *bolt.Tx) error { return tx.Bucket([]byte("keep")).Put([]byte("b"), []byte("2")) })
	var api []string
	_ = db.View(func(tx *bolt.Tx) error { api, _ = exec.DumpTx(tx, false); return nil })
	db.Close()
	img, _ := os.ReadFile(path)
	d := decode.Decode(img, decode.Options{})
	cov["big_freelist_ids"] = len(d.Free)
	if len(d.Free) <= 0xFFFF {
		c.Inconclusive(fmt.Sprintf("big freelist case produced only %d ids", len(d.Free)))
		return
	}
	rp := func() string {
		return c.SaveReplay("bigfreelist.json", map[string]any{"what": "70000 one-page keys deleted at once, page size 1024", "errors": d.Errors})
	}
	if len(d.Errors) > 0 {
		c.Report("format:0xFFFF", "freelist beyond 65535 ids: "+d.Errors[0], rp())
	} else if diff := model.DiffDumps(api, exec.ModelDump(d.Content)); diff != "" {
		c.Report("format:0xFFFF", "content: "+diff, rp())
	}
	// reopen by the current build with both backends
	for _, fl := range backends {
		db, err := exec.Open(path, gen.OpenOpts{Freelist: fl})
		if err != nil {
			c.Report("format:0xFFFF", "reopen: "+err.Error(), rp())
			return
		}
		st := db.VerifFreelist()
		if len(st.Free) != len(d.Free) {
			c.Report("format:0xFFFF", fmt.Sprintf("backend %s reads %d free ids, D reads %d", fl, len(st.Free), len(d.Free)), rp())
		}
		db.Close()
	}
}

func runC12(c *Ctx) int {
	mon := exec.Monitors{Dumps: true, Format: true, Backups: true}
	if c.Replay != "" {
		return c.replayAPI(mon, 1_000_000)
	}
	n := c.Pick(480, 30000)
	progs := apiPrograms(c.Seed+200, n, []string{"mixed", "buckets", "big", "structural", "bigkeys"}, func(i int, cfg *gen.Config) {
		cfg.ROProbe = 0
		cfg.FailCommit = 0.1
		if i%2 == 1 {
			cfg.OptSched = sessionOpts
		}
		// option combinations: grow-sync, initial map size, backend changes on reopen
		cfg.Opts.NoGrowSync = i%3 == 0
		if i%5 == 0 {
			cfg.Opts.InitialMmapSize = 1 << 22
		}
	})
	agg := c.runPrograms(progs, mon, c.Pick(20, 100), 1_000_000, func(cs *apiCase) bool {
		return cs.Stats.FileDecodes >= 3 && cs.Stats.Commits >= 2
	}, nil)
	cov := agg.coverage("after every commit, rollback and reopen of generated programs (4 page sizes, both backends, freelist-sync on/off, grow-sync on/off, initial map sizes) the file is decoded by the independent decoder D (published version-2 layout only: checksummed metas, branch/leaf/freelist pages, inline buckets, overflow, 0xFFFF count) and D's content must equal the dump obtained through the API; plus the golden corpus written by the pinned build (41 files, all page sizes, 0xFFFF freelist) decoded by D and read/written by the current build. Non-trivial: >= 2 commits and >= 3 decoded images; distinct = structural fingerprint.")

	// golden corpus
	var man struct {
		Pinned  string        `json:"pinned_commit"`
		Entries []goldenEntry `json:"entries"`
	}
	gdir := filepath.Join(c.Verif, "golden")
	if b, err := os.ReadFile(filepath.Join(gdir, "manifest.json")); err != nil || json.Unmarshal(b, &man) != nil || len(man.Entries) == 0 {
		c.Inconclusive("golden corpus manifest missing")
	} else {
		ents := man.Entries
		if c.Quick() {
			// the 80 MB 0xFFFF file is part of quick as well: it is the only witness of that convention
		}
		nb := 8
		goldOK := 0
		var goldSamples []string
		results := make([][]goldenRes, nb)
		c.Parallel(nb, func(bi int) {
			var mine []goldenEntry
			for i := bi; i < len(ents); i += nb {
				mine = append(mine, ents[i])
			}
			res := c.RunChild("golden", goldenArgs{Dir: gdir, Tmp: c.Tmp, Entries: mine}, 10*60*1e9)
			for _, l := range res.Lines {
				var g goldenRes
				if json.Unmarshal([]byte(l), &g) == nil {
					results[bi] = append(results[bi], g)
				}
			}
			for _, id := range res.Unfinished() {
				results[bi] = append(results[bi], goldenRes{Name: id, Problems: []string{"process died while reading the golden file: " + tail(res.Stderr, 800)}})
			}
		})
		for _, rs := range results {
			for _, g := range rs {
				if len(g.Problems) > 0 {
					rp := c.SaveReplay("golden-"+g.Name+".json", g)
					c.Report("golden", g.Name+": "+g.Problems[0], rp)
				} else {
					goldOK++
					if len(goldSamples) < 3 {
						goldSamples = append(goldSamples, fmt.Sprintf("%s: %d pages, %d content lines, %d free ids", g.Name, g.Pages, g.Lines, g.FreeIDs))
					}
				}
			}
		}
		cov["golden_files_checked"] = goldOK
		cov["golden_files_total"] = len(ents)
		cov["golden_pinned_commit"] = man.Pinned
		cov["golden_samples"] = goldSamples
		if goldOK+c.NViolations() < len(ents) {
			c.Inconclusive("not every golden file was checked")
		}
	}
	bigFreelist(c, cov)
	if agg.FileDecodes == 0 {
		c.Inconclusive("no file image was decoded")
	}
	return c.Finish("exploration", cov, []string{
		"D encodes my reading of the published version-2 layout and is validated against the pinned build's golden files; a misreading shared by D and the pinned build would be invisible",
		"golden files were produced by the pinned commit e681957 through the public API (tools/mkgolden.sh)",
	})
}
