package drivers

import (
	"math/rand"
	"os"

	"go.etcd.io/bbolt/verifh/exec"
	"go.etcd.io/bbolt/verifh/gen"
)

func init() { Drivers["C04"] = runC04 }

var pageSizes = []int{1024, 2048, 4096, 16384}
var backends = []string{"array", "hashmap"}

// apiPrograms builds the fixed case list for the API-model checks.
func apiPrograms(seed int64, n int, profiles []string, tweak func(i int, cfg *gen.Config)) []*gen.Program {
	var out []*gen.Program
	for i := 0; i < n; i++ {
		cfg := gen.Config{
			Profile:  profiles[i%len(profiles)],
			PageSize: pageSizes[(i/len(profiles))%len(pageSizes)],
			Txs:      10,
			OpsPerTx: 16,
			KeySpace: 150,
			Reopen:   0.15,
			Rollback: 0.2,
			ROProbe:  0.15,
			Managed:  0.3, // a third of the write transactions run inside DB.Update (body returns nil / an error / panics)
		}
		cfg.Opts.Freelist = backends[(i/(len(profiles)*len(pageSizes)))%2]
		cfg.Opts.NoFreelistSync = (i/(len(profiles)*len(pageSizes)*2))%2 == 1
		if cfg.PageSize <= 2048 {
			cfg.KeySpace = 220
		}
		if cfg.Profile == "big" {
			cfg.KeySpace = 40
			cfg.Txs = 6
		}
		if cfg.Profile != "big" && i%3 == 0 {
			cfg.HeldReaders = 0.35 // read transactions kept open across later write transactions
		}
		if tweak != nil {
			tweak(i, &cfg)
		}
		if cfg.Profile == "manybuckets" {
			out = append(out, gen.GenerateManyBuckets(seed, i, cfg.PageSize, cfg.Opts))
			continue
		}
		out = append(out, gen.Generate(seed, i, cfg))
	}
	return out
}

// sessionOpts draws the options of a later session of the same file: backend, freelist-sync and grow-sync may
// all differ from the session before (a file last written with a persisted list is continued without one, ...).
func sessionOpts(r *rand.Rand) gen.OpenOpts {
	return gen.OpenOpts{Freelist: backends[r.Intn(2)], NoFreelistSync: r.Intn(2) == 0, NoGrowSync: r.Intn(3) == 0}
}

func runC04(c *Ctx) int {
	mon := exec.Monitors{API: true, Dumps: true, DeepDump: true, Accounting: false, TxCheck: false, Format: false}
	// the file is still decoded (no oracle attached) to measure which structural transitions were driven
	mon.FreeExact = false
	if c.Replay != "" {
		return c.replayAPI(mon, 1_000_000)
	}
	n := c.Pick(640, 40000)
	progs := apiPrograms(c.Seed, n, []string{"mixed", "structural", "buckets", "big", "mixed", "manybuckets", "buckets", "bigkeys"}, func(i int, cfg *gen.Config) {
		cfg.FailCommit = 0.1 // a failed commit must leave the state the model has (all-or-nothing through the API)
	})
	monT := mon
	monT.Format = true // decode with D to observe transitions; format mismatches are C12's, so they are reported under C12 only
	agg := c.runPrograms(progs, monT, c.Pick(20, 100), 1_000_000, func(cs *apiCase) bool {
		return cs.Stats.Commits >= 1 && cs.Stats.APIChecks >= 20
	}, nil)
	cov := agg.coverage("programs are generated from (VERIF_SEED, case index) over profiles mixed/structural/buckets/big x page sizes 1024/2048/4096/16384 x both freelist backends x freelist-sync on/off; a case is non-trivial if it committed at least once and compared >= 20 API results; distinct = distinct fingerprint (set of structural transitions driven with capped counts, tree depth, commit/rollback/reopen counts, split/rebalance counts, overflow/inline presence, page size, backend)")
	// second pass under checkptr (unsafe page arithmetic) on a sub-list
	if bin := os.Getenv("VCHECK_CHECKPTR"); bin != "" {
		c.ChildBin = bin
		m := c.Pick(96, 4000)
		sub := apiPrograms(c.Seed+1, m, []string{"structural", "big", "buckets"}, nil)
		agg2 := c.runPrograms(sub, mon, c.Pick(12, 100), 1_000_000, func(cs *apiCase) bool { return cs.Stats.Commits >= 1 }, nil)
		cov["checkptr_pass_programs"] = agg2.Cases
		cov["checkptr_pass_steps"] = agg2.Steps
		c.ChildBin = ""
	}
	if bin := os.Getenv("VCHECK_ASAN"); bin != "" && !c.Quick() {
		c.ChildBin = bin
		sub := apiPrograms(c.Seed+2, 2000, []string{"structural", "big", "buckets"}, nil)
		agg3 := c.runPrograms(sub, mon, 100, 1_000_000, func(cs *apiCase) bool { return cs.Stats.Commits >= 1 }, nil)
		cov["asan_pass_programs"] = agg3.Cases
		c.ChildBin = ""
	}
	// every structural threshold the property names must have been crossed
	for _, t := range []string{"split", "rebalance", "depth-up", "depth-down", "overflow-present", "inline->paged", "paged->inline", "range-delete"} {
		if agg.Transitions[t] == 0 {
			c.Inconclusive("no program drove the structural transition " + t)
		}
	}
	return c.Finish("exploration", cov, []string{
		"the reference model M (harness/model) states the documented behaviour of the public API",
		"values compare as byte strings (nil == empty for a present key); Bucket.Stats is compared only in clean read transactions",
		"bucket names longer than MaxKeySize and un-positioned cursor moves are not generated (documented as undefined)",
	})
}
