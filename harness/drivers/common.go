// Package drivers holds one driver per property plus the shared process,
// evidence and known-findings plumbing.
package drivers

import (
	"bufio"
	"bytes"
	"encoding/json"
	"fmt"
	"os"
	"os/exec"
	"path/filepath"
	"runtime"
	"sort"
	"strings"
	"sync"
	"syscall"
	"time"
)

// Ctx is the context of one check run.
type Ctx struct {
	Prop     string
	Tier     string // quick | thorough
	Seed     int64
	Verif    string // /verif
	Tmp      string // scratch directory (tmpfs if available), removed at exit
	Start    time.Time
	Workers  int
	Replay   string // --replay file
	ChildBin string // binary used for child processes (default: this executable)

	mu           sync.Mutex
	violations   []Finding
	known        []Finding
	inconcl      []string
	knownFile    []KnownEntry
	printedKnow  map[string]bool
	transcripts  []transcriptRec
	retryExpired int
	children     map[int]bool // process groups of running children (killed when the check itself is terminated)
}

type transcriptRec struct{ base, hash, file string }

// Finding is one violation with its replay file.
type Finding struct {
	Key    string // <prop>:<kind>, matched against known_findings.json
	Msg    string
	Replay string
}

// KnownEntry is one line of known_findings.json.
type KnownEntry struct {
	Property string `json:"property"`
	Key      string `json:"key"`
	Status   string `json:"status"` // known | fixed
	Commit   string `json:"commit,omitempty"`
	What     string `json:"what"`
}

func NewCtx(prop, tier string) *Ctx {
	c := &Ctx{Prop: prop, Tier: tier, Start: time.Now(), Workers: runtime.NumCPU(), printedKnow: map[string]bool{}}
	c.Verif = os.Getenv("VERIF_DIR")
	if c.Verif == "" {
		c.Verif = "/verif"
	}
	if s := os.Getenv("VERIF_SEED"); s != "" {
		fmt.Sscan(s, &c.Seed)
	}
	if s := os.Getenv("VERIF_WORKERS"); s != "" {
		fmt.Sscan(s, &c.Workers)
	}
	base := os.Getenv("VERIF_TMP")
	if base == "" {
		if st, err := os.Stat("/dev/shm"); err == nil && st.IsDir() {
			base = "/dev/shm"
		} else {
			base = os.TempDir()
		}
	}
	c.Tmp = filepath.Join(base, fmt.Sprintf("vcheck-%s-%d", prop, os.Getpid()))
	_ = os.MkdirAll(c.Tmp, 0700)
	if b, err := os.ReadFile(filepath.Join(c.Verif, "known_findings.json")); err == nil {
		var f struct {
			Findings []KnownEntry `json:"findings"`
		}
		if json.Unmarshal(b, &f) == nil {
			c.knownFile = f.Findings
		}
	}
	return c
}

func (c *Ctx) Quick() bool { return c.Tier != "thorough" }

// Pick returns q for the quick tier and t for the thorough tier.
func (c *Ctx) Pick(q, t int) int {
	if c.Quick() {
		return q
	}
	return t
}

func (c *Ctx) Close() { _ = os.RemoveAll(c.Tmp) }

// Abort is called when the check itself is terminated (SIGTERM/SIGINT): its children and scratch files must not outlive it.
func (c *Ctx) Abort() {
	c.mu.Lock()
	for pid := range c.children {
		_ = syscall.Kill(-pid, syscall.SIGKILL)
	}
	c.mu.Unlock()
	_ = os.RemoveAll(c.Tmp)
}

// ReplayDir returns (and creates) /verif/replays/<prop>.
func (c *Ctx) ReplayDir() string {
	d := filepath.Join(c.Verif, "replays", c.Prop)
	_ = os.MkdirAll(d, 0755)
	return d
}

// SaveReplay writes a replay file and returns its path.
func (c *Ctx) SaveReplay(name string, v any) string {
	p := filepath.Join(c.ReplayDir(), name)
	b, _ := json.MarshalIndent(v, "", " ")
	_ = os.WriteFile(p, b, 0644)
	return p
}

// Report records a violation (or a known finding).
func (c *Ctx) Report(kind, msg, replay string) {
	c.mu.Lock()
	defer c.mu.Unlock()
	key := c.Prop + ":" + kind
	for _, k := range c.knownFile {
		if k.Status == "known" && k.Property == c.Prop && k.Key == key {
			if !c.printedKnow[key] {
				c.printedKnow[key] = true
				fmt.Printf("KNOWN-FINDING: property=%s %s (%s)\n", c.Prop, k.What, key)
			}
			c.known = append(c.known, Finding{Key: key, Msg: msg, Replay: replay})
			return
		}
	}
	c.violations = append(c.violations, Finding{Key: key, Msg: msg, Replay: replay})
	if len(c.violations) <= 10 {
		fmt.Printf("VIOLATION property=%s replay=%s\n", c.Prop, replay)
		fmt.Printf("  [%s] %s\n", key, msg)
	}
}

// Inconclusive records that part of the run could not be decided.
func (c *Ctx) Inconclusive(msg string) {
	c.mu.Lock()
	c.inconcl = append(c.inconcl, msg)
	c.mu.Unlock()
	fmt.Printf("INCONCLUSIVE: %s\n", msg)
}

func (c *Ctx) NViolations() int { c.mu.Lock(); defer c.mu.Unlock(); return len(c.violations) }

// Evidence mirrors EVIDENCE.schema.json.
type Evidence struct {
	PropertyID  string         `json:"property_id"`
	Tier        string         `json:"tier"`
	Seed        int64          `json:"seed"`
	Level       string         `json:"level"`
	Coverage    map[string]any `json:"coverage"`
	Assumptions []string       `json:"assumptions"`
	WallS       float64        `json:"wall_s"`
	Violations  int            `json:"violations"`
}

// Finish writes the evidence file and returns the exit code.
// evaluations/distinct must be measured numbers; a monitor that saw nothing is inconclusive.
func (c *Ctx) Finish(level string, cov map[string]any, assumptions []string) int {
	c.mu.Lock()
	nviol, nknown, ninc := len(c.violations), len(c.known), len(c.inconcl)
	if nknown > 0 {
		cov["known_findings_seen"] = nknown
	}
	cov["inconclusive"] = ninc
	if ninc > 0 {
		cov["inconclusive_reasons"] = c.inconcl
	}
	if nviol > 0 {
		var vs []map[string]string
		for i, v := range c.violations {
			if i >= 10 {
				break
			}
			vs = append(vs, map[string]string{"key": v.Key, "msg": v.Msg, "replay": v.Replay})
		}
		cov["violation_list"] = vs
	}
	c.mu.Unlock()
	ev := Evidence{PropertyID: c.Prop, Tier: map[bool]string{true: "quick", false: "thorough"}[c.Quick()], Seed: c.Seed, Level: level,
		Coverage: cov, Assumptions: assumptions, WallS: time.Since(c.Start).Seconds(), Violations: nviol}
	b, _ := json.MarshalIndent(ev, "", " ")
	_ = os.MkdirAll(filepath.Join(c.Verif, "evidence"), 0755)
	_ = os.WriteFile(filepath.Join(c.Verif, "evidence", c.Prop+".json"), b, 0644)
	fmt.Printf("%s %s seed=%d: evaluations=%v distinct_nontrivial=%v violations=%d known=%d inconclusive=%d wall=%.1fs\n",
		c.Prop, c.Tier, c.Seed, cov["evaluations"], cov["distinct_nontrivial"], nviol, nknown, ninc, time.Since(c.Start).Seconds())
	switch {
	case nviol > 0:
		return 1
	case ninc > 0:
		return 2
	}
	if ev, _ := cov["evaluations"].(int); ev == 0 {
		fmt.Println("INCONCLUSIVE: the monitor observed nothing")
		return 2
	}
	return 0
}

// ---------------------------------------------------------------- child processes

// ChildResult is what one child batch produced.
type ChildResult struct {
	Lines    []string // DONE lines (JSON payloads)
	Started  []string // ids of cases started
	Finished map[string]bool
	ExitErr  error
	TimedOut bool
	Stderr   string // tail
	LastLine string // last non-protocol line on stdout (children announce what they are about to do)
}

// RunChild runs `vcheck child <mode> <argfile>` and collects its protocol
// lines: "START <id>" / "DONE <id> <json>". A case that was started but not
// finished when the child died is the witness of a crash.
func (c *Ctx) RunChild(mode string, args any, timeout time.Duration, extraEnv ...string) *ChildResult {
	res := c.runChildOnce(mode, args, timeout, extraEnv...)
	c.mu.Lock()
	giveUp := c.retryExpired >= 2 || os.Getenv("VERIF_NO_RETRY") != "" // retries that expired again: this is not load, something really hangs
	c.mu.Unlock()
	if res.TimedOut && !giveUp {
		// the wall-clock watchdog is not a verdict: on a loaded machine a healthy batch can exceed it.
		// One more attempt with three times the budget; a second expiry is reported by the caller as inconclusive.
		fmt.Printf("note: watchdog (%v) expired in child mode %s (last line: %s); retrying once with %v\n", timeout, mode, res.LastLine, 3*timeout)
		res = c.runChildOnce(mode, args, 3*timeout, extraEnv...)
		if res.TimedOut {
			c.mu.Lock()
			c.retryExpired++
			c.mu.Unlock()
		}
	}
	return res
}

func (c *Ctx) runChildOnce(mode string, args any, timeout time.Duration, extraEnv ...string) *ChildResult {
	self, _ := os.Executable()
	if c.ChildBin != "" {
		self = c.ChildBin
	}
	af, _ := os.CreateTemp(c.Tmp, "args-*.json")
	b, _ := json.Marshal(args)
	_, _ = af.Write(b)
	af.Close()
	defer os.Remove(af.Name())
	errf, _ := os.CreateTemp(c.Tmp, "stderr-*.txt")
	defer func() { errf.Close(); os.Remove(errf.Name()) }()
	cmd := exec.Command(self, "child", mode, af.Name())
	cmd.Env = append(os.Environ(), "BBOLT_VERIFY=all", "GOTRACEBACK=all")
	cmd.Env = append(cmd.Env, extraEnv...)
	var out bytes.Buffer
	cmd.Stdout = &out
	cmd.Stderr = errf
	cmd.SysProcAttr = &syscall.SysProcAttr{Setpgid: true}
	res := &ChildResult{Finished: map[string]bool{}}
	if err := cmd.Start(); err != nil {
		res.ExitErr = err
		return res
	}
	c.mu.Lock()
	if c.children == nil {
		c.children = map[int]bool{}
	}
	c.children[cmd.Process.Pid] = true
	c.mu.Unlock()
	defer func() {
		c.mu.Lock()
		delete(c.children, cmd.Process.Pid)
		c.mu.Unlock()
	}()
	done := make(chan error, 1)
	go func() { done <- cmd.Wait() }()
	select {
	case err := <-done:
		res.ExitErr = err
	case <-time.After(timeout):
		res.TimedOut = true
		_ = syscall.Kill(-cmd.Process.Pid, syscall.SIGQUIT)
		select {
		case <-done:
		case <-time.After(10 * time.Second):
			_ = syscall.Kill(-cmd.Process.Pid, syscall.SIGKILL)
			<-done
		}
		res.ExitErr = fmt.Errorf("watchdog: child exceeded %v", timeout)
	}
	sc := bufio.NewScanner(&out)
	sc.Buffer(make([]byte, 1<<20), 1<<28)
	for sc.Scan() {
		l := sc.Text()
		switch {
		case strings.HasPrefix(l, "START "):
			res.Started = append(res.Started, strings.TrimPrefix(l, "START "))
		case strings.HasPrefix(l, "DONE "):
			rest := strings.TrimPrefix(l, "DONE ")
			id := rest
			if i := strings.IndexByte(rest, ' '); i >= 0 {
				id = rest[:i]
				res.Lines = append(res.Lines, rest[i+1:])
			}
			res.Finished[id] = true
		default:
			res.LastLine = l
		}
	}
	if eb, err := os.ReadFile(errf.Name()); err == nil {
		if len(eb) > 6000 {
			// keep head (panic message) and tail
			eb = append(append(eb[:3000:3000], []byte("\n...\n")...), eb[len(eb)-2500:]...)
		}
		res.Stderr = string(eb)
	}
	return res
}

// Unfinished returns the ids that were started but never finished.
func (r *ChildResult) Unfinished() []string {
	var out []string
	for _, id := range r.Started {
		if !r.Finished[id] {
			out = append(out, id)
		}
	}
	return out
}

// Parallel runs fn(i) for i in [0,n) on c.Workers goroutines.
func (c *Ctx) Parallel(n int, fn func(i int)) {
	var wg sync.WaitGroup
	ch := make(chan int)
	w := c.Workers
	if w > n {
		w = n
	}
	for k := 0; k < w; k++ {
		wg.Add(1)
		go func() {
			defer wg.Done()
			for i := range ch {
				fn(i)
			}
		}()
	}
	for i := 0; i < n; i++ {
		ch <- i
	}
	close(ch)
	wg.Wait()
}

// Child-side protocol helpers.
var childMu sync.Mutex

func ChildStart(id string) {
	childMu.Lock()
	fmt.Printf("START %s\n", id)
	os.Stdout.Sync()
	childMu.Unlock()
}

func ChildDone(id string, payload any) {
	b, _ := json.Marshal(payload)
	childMu.Lock()
	fmt.Printf("DONE %s %s\n", id, b)
	childMu.Unlock()
}

// ReadArgs decodes the argument file of a child.
func ReadArgs(path string, v any) {
	b, err := os.ReadFile(path)
	if err != nil {
		fmt.Fprintln(os.Stderr, "child: cannot read args:", err)
		os.Exit(3)
	}
	if err := json.Unmarshal(b, v); err != nil {
		fmt.Fprintln(os.Stderr, "child: bad args:", err)
		os.Exit(3)
	}
}

// SortedKeys of a string-keyed count map, for stable evidence output.
func SortedKeys[V any](m map[string]V) []string {
	ks := make([]string, 0, len(m))
	for k := range m {
		ks = append(ks, k)
	}
	sort.Strings(ks)
	return ks
}

// Registry of drivers and child modes.
type Driver func(c *Ctx) int

var Drivers = map[string]Driver{}
var ChildModes = map[string]func(argfile string){}

func firstN(s []string, n int) []string {
	if len(s) > n {
		return s[:n]
	}
	return s
}
