package drivers

import (
	"encoding/json"
	"fmt"
	"os"
	"path/filepath"
	"sort"
	"strings"
	"time"

	bolt "go.etcd.io/bbolt"
	"go.etcd.io/bbolt/verifh/decode"
	"go.etcd.io/bbolt/verifh/exec"
	"go.etcd.io/bbolt/verifh/gen"
	"go.etcd.io/bbolt/verifh/model"
)

// C20 — repair commands restore exactly what they promise.
//
// While a generated history runs, the data file is snapshotted directly
// after some of its commits together with the model's current version N and
// previous version N-1. The freshly built CLI is then run on each snapshot:
//   surgery freelist abandon        -> same content, both metas without a freelist,
//                                      free set rebuilt by bbolt == D's unreachable pages
//   surgery freelist rebuild (on that output, or on a snapshot that has no persisted list)
//                                   -> same content, persisted list, D's page accounting exact
//   surgery freelist rebuild on a file that has a list -> must refuse (non-zero)
//   surgery revert-meta-page        -> opens at exactly version N-1, Tx.Check and D clean, still writable
// Each command may write its output file only: source SHA-256 and the
// directory listing are compared before/after.

func init() {
	Drivers["C20"] = runC20
	ChildModes["c20"] = childC20
}

type c20Args struct {
	Progs   []string `json:"progs"`
	Dir     string   `json:"dir"`
	Bbolt   string   `json:"bbolt"`
	PerProg int      `json:"per_prog"` // snapshots per program
}

type c20Bad struct {
	Kind string `json:"kind"`
	Msg  string `json:"msg"`
	Snap int    `json:"snap"`
}

type c20Res struct {
	File       string         `json:"file"`
	Skipped    string         `json:"skipped,omitempty"`
	Snapshots  int            `json:"snapshots"`
	Commands   map[string]int `json:"commands"`
	FPs        map[string]int `json:"fps"`
	NonTrivial []string       `json:"nontrivial"`
	Bad        []c20Bad       `json:"bad,omitempty"`
	Sample     string         `json:"sample,omitempty"`
	RevertDiff int            `json:"revert_diff"` // reverts where N-1 differs from N
	FreeIDs    int            `json:"free_ids"`
}

type c20Snap struct {
	path      string
	cur, prev []string
	commitNo  int
	persisted bool
}

func childC20(argfile string) {
	var a c20Args
	ReadArgs(argfile, &a)
	for i, f := range a.Progs {
		id := fmt.Sprintf("%d", i)
		ChildStart(id)
		ChildDone(id, c20One(&a, i, f))
	}
}

func listDir(dir string) []string {
	ents, _ := os.ReadDir(dir)
	var out []string
	for _, e := range ents {
		out = append(out, e.Name())
	}
	sort.Strings(out)
	return out
}

func c20One(a *c20Args, idx int, progFile string) (res c20Res) {
	res = c20Res{File: progFile, Commands: map[string]int{}, FPs: map[string]int{}}
	p, err := loadProgram(progFile)
	if err != nil {
		res.Skipped = err.Error()
		return
	}
	work := filepath.Join(a.Dir, fmt.Sprintf("c20-%d-%d", os.Getpid(), idx))
	_ = os.MkdirAll(work, 0700)
	defer os.RemoveAll(work)
	src := filepath.Join(work, "live.db")

	// which commits to snapshot: the last PerProg ones (the file is richest there) — decided by commit count
	ncommit := 0
	for _, st := range p.Steps {
		if st.Op == "commit" {
			ncommit++
		}
	}
	var snaps []c20Snap
	r := exec.NewRunner(src, exec.Monitors{})
	prev := exec.ModelDump(model.New())
	seen := 0
	r.AfterCommit = func(r *exec.Runner) {
		seen++
		cur := exec.ModelDump(r.Sim.Committed)
		if seen > ncommit-a.PerProg {
			img, err := os.ReadFile(src)
			if err == nil {
				sp := filepath.Join(work, fmt.Sprintf("snap%d.db", seen))
				if os.WriteFile(sp, img, 0600) == nil {
					snaps = append(snaps, c20Snap{path: sp, cur: cur, prev: prev, commitNo: seen})
				}
			}
		}
		prev = cur
	}
	if v := r.Run(p); len(v) > 0 {
		res.Skipped = "history failed: " + v[0].String()
		return
	}
	os.Remove(src)

	for si := range snaps {
		s := &snaps[si]
		bad := func(kind, format string, x ...any) {
			if len(res.Bad) < 6 {
				res.Bad = append(res.Bad, c20Bad{Kind: kind, Msg: fmt.Sprintf("commit %d: ", s.commitNo) + fmt.Sprintf(format, x...), Snap: s.commitNo})
			}
		}
		srcImg, err := os.ReadFile(s.path)
		if err != nil {
			continue
		}
		srcSHA := sha(srcImg)
		sd := decode.Decode(srcImg, decode.Options{})
		if len(sd.Errors) > 0 || model.DiffDumps(s.cur, exec.ModelDump(sd.Content)) != "" {
			// the snapshot itself is off: C07/C12's domain, not a repair-command problem
			res.Skipped = fmt.Sprintf("snapshot after commit %d is not a clean image of the model version: %v", s.commitNo, firstN(sd.Errors, 1))
			continue
		}
		s.persisted = sd.HasFreelist
		res.Snapshots++
		unreach := sd.Unreachable()
		res.FreeIDs += len(unreach)

		// run one CLI command in the work directory, check exit status, source bytes, stray files
		run := func(name string, srcPath, outPath string, wantOK bool, args ...string) bool {
			before := listDir(work)
			inImg, _ := os.ReadFile(srcPath)
			fmt.Printf("CASE %s %s (commit %d of %s)\n", name, filepath.Base(srcPath), s.commitNo, filepath.Base(progFile))
			out, code, terr := runCLI(a.Bbolt, 120*time.Second, args...)
			if terr != nil {
				res.Skipped = "cli watchdog: " + terr.Error()
				return false
			}
			res.Commands[name]++
			after := listDir(work)
			now, _ := os.ReadFile(srcPath)
			if sha(now) != sha(inImg) {
				bad("source-changed:"+name, "%s changed its source file", name)
				_ = os.WriteFile(srcPath, inImg, 0600)
			}
			allowed := map[string]bool{filepath.Base(outPath): true}
			for _, n := range before {
				allowed[n] = true
			}
			for _, n := range after {
				if !allowed[n] {
					bad("stray-file:"+name, "%s created %s besides its output", name, n)
					os.Remove(filepath.Join(work, n))
				}
			}
			if wantOK && code != 0 {
				bad("cli-exit:"+name, "%s exited %d on a valid input: %s", name, code, tail(out, 300))
				return false
			}
			if !wantOK && code == 0 {
				bad("cli-exit-zero:"+name, "%s exited 0 although it must refuse: %s", name, tail(out, 200))
				return false
			}
			return wantOK
		}
		// open an output file and compare content / integrity; returns the allocator's free set
		inspect := func(name, path string, want []string, noSync bool) (free map[uint64]bool, ok bool) {
			db, err := exec.Open(path, gen.OpenOpts{NoFreelistSync: noSync, Freelist: backends[(idx+si)%2]})
			if err != nil {
				bad("open:"+name, "output of %s does not open: %v", name, err)
				return nil, false
			}
			defer db.Close()
			_ = db.View(func(tx *bolt.Tx) error {
				got, probs := exec.DumpTx(tx, false)
				for _, x := range probs {
					bad("read-paths:"+name, "%s", x)
				}
				if d := model.DiffDumps(want, got); d != "" {
					bad("content:"+name, "output of %s differs from the expected state: %s", name, d)
				}
				if errs := exec.CheckTx(tx); len(errs) > 0 {
					bad("check:"+name, "Tx.Check on the output of %s: %s", name, errs[0])
				}
				return nil
			})
			free = map[uint64]bool{}
			if st := db.VerifFreelist(); st != nil {
				for _, id := range st.Free {
					free[uint64(id)] = true
				}
				for _, l := range st.Pending {
					for _, p := range l {
						free[uint64(p.ID)] = true
					}
				}
			}
			return free, true
		}
		shape := fmt.Sprintf("ps=%d persisted=%v free=%s tree=%s inline=%v ovf=%v", sd.PageSize, sd.HasFreelist, sizeClass(len(unreach)), sizeClass(len(sd.TreePages)), sd.InlineN > 0, sd.OverflowN > 0)
		note := func(cmd string) {
			fp := shape + " cmd=" + cmd
			res.FPs[fp]++
			if len(sd.TreePages) >= 3 {
				res.NonTrivial = append(res.NonTrivial, fp)
			}
		}

		// ---- abandon
		aPath := filepath.Join(work, fmt.Sprintf("abandon%d.db", s.commitNo))
		if run("abandon", s.path, aPath, true, "surgery", "freelist", "abandon", s.path, "--output", aPath) {
			img, _ := os.ReadFile(aPath)
			ad := decode.Decode(img, decode.Options{})
			for slot := 0; slot < 2; slot++ {
				mm := ad.Metas[slot]
				if !mm.Valid {
					bad("abandon:meta-invalid", "meta %d of the abandon output is invalid: %s", slot, mm.Why)
				} else if mm.Freelist != decode.NoFreelist {
					bad("abandon:meta-keeps-freelist", "meta %d of the abandon output still points at freelist page %d", slot, mm.Freelist)
				}
				// nothing but the freelist pointer and the checksum may differ from the source's meta
				sm := sd.Metas[slot]
				if mm.Valid && sm.Valid && (mm.Root != sm.Root || mm.RootSeq != sm.RootSeq || mm.Pgid != sm.Pgid || mm.Txid != sm.Txid || mm.PageSize != sm.PageSize) {
					bad("abandon:meta-altered", "meta %d: fields other than the freelist pointer changed", slot)
				}
			}
			if len(ad.Errors) > 0 {
				bad("abandon:decode", "independent decoder on the abandon output: %s", ad.Errors[0])
			} else if d := model.DiffDumps(s.cur, exec.ModelDump(ad.Content)); d != "" {
				bad("content:abandon", "abandon output decodes to different content: %s", d)
			}
			// everything outside the two meta pages is byte-identical to the source
			if len(img) != len(srcImg) || string(img[2*sd.PageSize:]) != string(srcImg[2*sd.PageSize:]) {
				bad("abandon:data-pages-changed", "abandon changed bytes outside the meta pages (len %d -> %d)", len(srcImg), len(img))
			}
			// the free set bbolt rebuilds on open == D's unreachable pages of the output
			wantFree := map[uint64]bool{}
			for _, id := range ad.Unreachable() {
				wantFree[id] = true
			}
			if free, ok := inspect("abandon", aPath, s.cur, true); ok {
				if !sameSet(free, wantFree) {
					bad("abandon:free-set", "free set rebuilt from the abandon output has %d ids, D counts %d unreachable pages (%s)", len(free), len(wantFree), setDiff(free, wantFree))
				}
			}
			note("abandon")
			// the inspection opened the file read-write without freelist sync: take a pristine copy for rebuild
			_ = os.WriteFile(aPath, img, 0600)

			// ---- rebuild on the abandon output
			rPath := filepath.Join(work, fmt.Sprintf("rebuild%d.db", s.commitNo))
			if run("rebuild", aPath, rPath, true, "surgery", "freelist", "rebuild", aPath, "--output", rPath) {
				rimg, _ := os.ReadFile(rPath)
				rd := decode.Decode(rimg, decode.Options{})
				switch {
				case len(rd.Errors) > 0:
					bad("rebuild:decode", "independent decoder on the rebuild output (page accounting must be exact): %s", rd.Errors[0])
				case !rd.HasFreelist:
					bad("rebuild:no-freelist", "rebuild output has no persisted freelist")
				default:
					if d := model.DiffDumps(s.cur, exec.ModelDump(rd.Content)); d != "" {
						bad("content:rebuild", "rebuild output decodes to different content: %s", d)
					}
				}
				inspect("rebuild", rPath, s.cur, false)
				note("rebuild")
				os.Remove(rPath)
			}
		}
		os.Remove(aPath)

		// ---- rebuild directly on the snapshot: works iff no list is persisted
		{
			rPath := filepath.Join(work, fmt.Sprintf("rebuild-direct%d.db", s.commitNo))
			if s.persisted {
				if !run("rebuild-refuse", s.path, rPath, false, "surgery", "freelist", "rebuild", s.path, "--output", rPath) {
					note("rebuild-refuse")
				}
			} else if run("rebuild-direct", s.path, rPath, true, "surgery", "freelist", "rebuild", s.path, "--output", rPath) {
				rimg, _ := os.ReadFile(rPath)
				rd := decode.Decode(rimg, decode.Options{})
				if len(rd.Errors) > 0 {
					bad("rebuild:decode", "independent decoder on the direct rebuild output: %s", rd.Errors[0])
				} else if !rd.HasFreelist {
					bad("rebuild:no-freelist", "direct rebuild output has no persisted freelist")
				}
				inspect("rebuild-direct", rPath, s.cur, false)
				note("rebuild-direct")
			}
			os.Remove(rPath)
		}

		// ---- revert-meta-page
		vPath := filepath.Join(work, fmt.Sprintf("revert%d.db", s.commitNo))
		if run("revert", s.path, vPath, true, "surgery", "revert-meta-page", s.path, "--output", vPath) {
			vimg, _ := os.ReadFile(vPath)
			vd := decode.Decode(vimg, decode.Options{NoParity: true})
			older := 1 - sd.Chosen
			switch {
			case len(vd.Errors) > 0:
				bad("revert:decode", "independent decoder on the revert output: %s", vd.Errors[0])
			case vd.Meta.Txid != sd.Metas[older].Txid:
				bad("revert:txid", "revert output is at txid %d, the older meta of the source has %d", vd.Meta.Txid, sd.Metas[older].Txid)
			default:
				if d := model.DiffDumps(s.prev, exec.ModelDump(vd.Content)); d != "" {
					bad("content:revert", "revert output decodes to a state other than the previous commit: %s", d)
				}
			}
			if len(vimg) != len(srcImg) || string(vimg[2*sd.PageSize:]) != string(srcImg[2*sd.PageSize:]) {
				bad("revert:data-pages-changed", "revert changed bytes outside the meta pages")
			}
			if strings.Join(s.prev, "\n") != strings.Join(s.cur, "\n") {
				res.RevertDiff++
			}
			if _, ok := inspect("revert", vPath, s.prev, !s.persisted); ok {
				// the reverted file is a working database: one more transaction, reopen, same content plus the probe
				db, err := exec.Open(vPath, gen.OpenOpts{NoFreelistSync: !s.persisted})
				if err == nil {
					err = db.Update(func(tx *bolt.Tx) error {
						b, err := tx.CreateBucketIfNotExists([]byte("c20-probe"))
						if err != nil {
							return err
						}
						return b.Put([]byte("k"), make([]byte, 3000))
					})
					if err != nil {
						bad("revert:write", "write transaction on the reverted file: %v", err)
					}
					_ = db.View(func(tx *bolt.Tx) error {
						if errs := exec.CheckTx(tx); len(errs) > 0 {
							bad("check:revert", "Tx.Check after a write on the reverted file: %s", errs[0])
						}
						return nil
					})
					db.Close()
					if w, err := os.ReadFile(vPath); err == nil {
						wd := decode.Decode(w, decode.Options{NoParity: true})
						if len(wd.Errors) > 0 {
							bad("revert:decode-after-write", "independent decoder after a write on the reverted file: %s", wd.Errors[0])
						} else if wd.Content != nil {
							delete(wd.Content.Sub, "c20-probe")
							if d := model.DiffDumps(s.prev, exec.ModelDump(wd.Content)); d != "" {
								bad("content:revert", "content of the reverted file changed by an unrelated write: %s", d)
							}
						}
					}
				}
			}
			note("revert")
			if res.Sample == "" {
				res.Sample = fmt.Sprintf("%s commit %d: %s; abandon+rebuild keep %d lines of content, revert lands on the previous version (%d lines)", filepath.Base(progFile), s.commitNo, shape, len(s.cur), len(s.prev))
			}
		}
		os.Remove(vPath)
		// the snapshot itself must be byte-identical after all commands
		if now, _ := os.ReadFile(s.path); sha(now) != srcSHA {
			bad("source-changed", "snapshot changed")
		}
		os.Remove(s.path)
	}
	sort.Strings(res.NonTrivial)
	return
}

func sizeClass(n int) string {
	switch {
	case n == 0:
		return "0"
	case n < 4:
		return "1-3"
	case n < 20:
		return "4-19"
	case n < 100:
		return "20-99"
	}
	return "100+"
}

func sameSet(a, b map[uint64]bool) bool {
	if len(a) != len(b) {
		return false
	}
	for k := range a {
		if !b[k] {
			return false
		}
	}
	return true
}

func setDiff(a, b map[uint64]bool) string {
	var onlyA, onlyB []uint64
	for k := range a {
		if !b[k] {
			onlyA = append(onlyA, k)
		}
	}
	for k := range b {
		if !a[k] {
			onlyB = append(onlyB, k)
		}
	}
	sort.Slice(onlyA, func(i, j int) bool { return onlyA[i] < onlyA[j] })
	sort.Slice(onlyB, func(i, j int) bool { return onlyB[i] < onlyB[j] })
	if len(onlyA) > 8 {
		onlyA = onlyA[:8]
	}
	if len(onlyB) > 8 {
		onlyB = onlyB[:8]
	}
	return fmt.Sprintf("only in the first: %v, only in the second: %v", onlyA, onlyB)
}

func runC20(c *Ctx) int {
	bin := os.Getenv("VCHECK_BBOLT")
	if bin == "" {
		c.Inconclusive("bbolt CLI binary not built (VCHECK_BBOLT)")
	}
	if c.Replay != "" {
		a := c20Args{Progs: []string{c.Replay}, Dir: c.Tmp, Bbolt: bin, PerProg: 1000}
		r := c20One(&a, 0, c.Replay)
		for _, b := range r.Bad {
			fmt.Printf("VIOLATION property=C20 replay=%s\n  [%s] %s\n", c.Replay, b.Kind, b.Msg)
		}
		if len(r.Bad) > 0 {
			return 1
		}
		fmt.Println("replay: no violation", r.Skipped)
		return 0
	}
	n := c.Pick(64, 2400)
	progs := apiPrograms(c.Seed+2000, n, []string{"mixed", "buckets", "overwrite", "structural", "big", "bigkeys"}, func(i int, cfg *gen.Config) {
		cfg.ROProbe = 0
		cfg.Reopen = 0.2
		cfg.Rollback = 0.15
		cfg.Txs = 8
		cfg.NoBigKeys = i%3 != 0 && cfg.Profile != "bigkeys"
	})
	dir := filepath.Join(c.Tmp, "progs")
	_ = os.MkdirAll(dir, 0700)
	files := make([]string, len(progs))
	for i, p := range progs {
		files[i] = filepath.Join(dir, fmt.Sprintf("C20-%s-seed%d-case%d.json", p.Name, p.Seed, p.Case))
		b, _ := json.Marshal(p)
		_ = os.WriteFile(files[i], b, 0600)
	}
	batch := c.Pick(4, 25)
	nb := (len(files) + batch - 1) / batch
	results := make([][]c20Res, nb)
	c.Parallel(nb, func(bi int) {
		lo, hi := bi*batch, (bi+1)*batch
		if hi > len(files) {
			hi = len(files)
		}
		rem := files[lo:hi]
		for len(rem) > 0 {
			res := c.RunChild("c20", c20Args{Progs: rem, Dir: c.Tmp, Bbolt: bin, PerProg: c.Pick(2, 5)}, time.Duration(120+60*len(rem))*time.Second)
			for _, l := range res.Lines {
				var r c20Res
				if json.Unmarshal([]byte(l), &r) == nil {
					results[bi] = append(results[bi], r)
				}
			}
			unf := res.Unfinished()
			if res.ExitErr == nil && len(unf) == 0 {
				break
			}
			idx := len(res.Finished)
			if len(unf) > 0 {
				fmt.Sscan(unf[0], &idx)
			}
			if idx >= len(rem) {
				c.Inconclusive(fmt.Sprintf("c20 child failed outside a case: %v %s", res.ExitErr, tail(res.Stderr, 300)))
				break
			}
			if res.TimedOut {
				c.Inconclusive("watchdog fired in " + filepath.Base(rem[idx]))
			} else {
				rp := c.keepReplay(rem[idx])
				c.Report("crash:"+crashKind(res.Stderr), fmt.Sprintf("process died (%s): %s", res.LastLine, tail(res.Stderr, 1200)), rp)
			}
			rem = rem[idx+1:]
		}
	})
	fps := map[string]int{}
	nontriv := map[string]bool{}
	cmds := map[string]int{}
	var samples []string
	snaps, skipped, revertDiff, freeIDs, evals := 0, 0, 0, 0, 0
	for _, rs := range results {
		for _, r := range rs {
			if r.Skipped != "" {
				skipped++
				if skipped <= 3 {
					fmt.Println("note: skipped:", r.Skipped)
				}
			}
			snaps += r.Snapshots
			revertDiff += r.RevertDiff
			freeIDs += r.FreeIDs
			for k, v := range r.Commands {
				cmds[k] += v
				evals += v
			}
			for k, v := range r.FPs {
				fps[k] += v
			}
			for _, k := range r.NonTrivial {
				nontriv[k] = true
			}
			if r.Sample != "" && len(samples) < 4 {
				samples = append(samples, r.Sample)
			}
			for _, b := range r.Bad {
				rp := c.keepReplay(r.File)
				c.Report(b.Kind, fmt.Sprintf("%s: %s", filepath.Base(r.File), b.Msg), rp)
			}
		}
	}
	if skipped > len(files)/10 {
		c.Inconclusive(fmt.Sprintf("%d histories/snapshots could not be used", skipped))
	}
	for _, k := range []string{"abandon", "rebuild", "revert", "rebuild-refuse", "rebuild-direct"} {
		if cmds[k] == 0 {
			c.Inconclusive("command never exercised: " + k)
		}
	}
	if revertDiff == 0 {
		c.Inconclusive("no revert where the previous version differs from the current one")
	}
	cov := map[string]any{
		"evaluations":                   evals,
		"distinct_nontrivial":           len(nontriv),
		"rule":                          "histories = generated API programs (profiles mixed/buckets/overwrite/structural/big, 4 page sizes, both backends, freelist persisted or not, reopens and rollbacks); the live file is copied directly after each of the last 2 (quick) / 5 (thorough) commits together with the model's current and previous version; on each snapshot the freshly built CLI runs `surgery freelist abandon`, `surgery freelist rebuild` (on the abandon output, and directly: must succeed iff no list is persisted, otherwise refuse with non-zero exit), `surgery revert-meta-page`. Oracles: exit status; source SHA-256 and directory listing (only the output file may appear); D on every output (abandon: both metas valid, freelist pointer cleared, other meta fields and all data pages byte-identical, content == N; rebuild: persisted list with exact page accounting, content == N; revert: txid == older meta's, content == model version N-1, data pages byte-identical); real bbolt opens every output: dump == expected version, Tx.Check clean, free set rebuilt from the abandon output == D's unreachable pages; a further write transaction on the reverted file commits and keeps content and accounting. Non-trivial: snapshot has >= 3 tree pages; distinct = (page size, list persisted, free-set size class, tree size class, inline, overflow, command).",
		"samples":                       samples,
		"snapshots":                     snaps,
		"commands_run":                  cmds,
		"reverts_where_versions_differ": revertDiff,
		"unreachable_ids_in_snapshots":  freeIDs,
		"histories":                     len(files),
		"skipped":                       skipped,
		"distinct_fingerprints_all":     len(fps),
	}
	return c.Finish("exploration", cov, []string{
		"model versions N and N-1 are recorded by the executor at each commit; a reopen that spends a transaction id on a freelist flush does not change content, so 'previous committed state' is compared by content",
		"D (harness/decode) judges every output independently of bbolt's own readers; meta slot parity is not required of revert outputs (the command copies the older meta over the newer by design)",
	})
}
