// Package exec runs programs against the real bbolt and, step by step,
// against the reference model, and offers the shared helpers (open, dump,
// error names, file checks) that all drivers use.
package exec

import (
	"bytes"
	"crypto/sha256"
	"errors"
	"fmt"
	"hash"
	"os"
	"strings"
	"time"

	bolt "go.etcd.io/bbolt"
	berrors "go.etcd.io/bbolt/errors"
	"go.etcd.io/bbolt/verifh/decode"
	"go.etcd.io/bbolt/verifh/gen"
	"go.etcd.io/bbolt/verifh/model"
)

// ErrName maps a bbolt error to the model's error name.
func ErrName(err error) string {
	switch {
	case err == nil:
		return model.OK
	case errors.Is(err, berrors.ErrBucketExists):
		return model.ErrBucketExists
	case errors.Is(err, berrors.ErrBucketNotFound):
		return model.ErrBucketNotFound
	case errors.Is(err, berrors.ErrBucketNameRequired):
		return model.ErrBucketNameReq
	case errors.Is(err, berrors.ErrIncompatibleValue):
		return model.ErrIncompatible
	case errors.Is(err, berrors.ErrKeyRequired):
		return model.ErrKeyRequired
	case errors.Is(err, berrors.ErrKeyTooLarge):
		return model.ErrKeyTooLarge
	case errors.Is(err, berrors.ErrValueTooLarge):
		return model.ErrValueTooLarge
	case errors.Is(err, berrors.ErrTxNotWritable):
		return model.ErrTxNotWritable
	case errors.Is(err, berrors.ErrTxClosed):
		return model.ErrTxClosed
	case errors.Is(err, berrors.ErrSameBuckets):
		return model.ErrSameBuckets
	case errors.Is(err, berrors.ErrDatabaseReadOnly):
		return model.ErrDatabaseRO
	}
	return "other: " + err.Error()
}

// ErrMatch says whether the real error satisfies the model's expectation.
func ErrMatch(want string, got error) bool {
	if want == model.ErrAny {
		return got != nil
	}
	return ErrName(got) == want
}

// Options converts OpenOpts to bolt.Options.
func Options(o gen.OpenOpts) *bolt.Options {
	bo := &bolt.Options{
		PageSize:        o.PageSize,
		NoFreelistSync:  o.NoFreelistSync,
		NoGrowSync:      o.NoGrowSync,
		InitialMmapSize: o.InitialMmapSize,
		Mlock:           o.Mlock,
		PreLoadFreelist: o.PreLoadFreelist,
		ReadOnly:        o.ReadOnly,
		MaxSize:         o.MaxSize,
		NoSync:          o.NoSync,
		Timeout:         5 * time.Second,
	}
	if o.Freelist == "hashmap" {
		bo.FreelistType = bolt.FreelistMapType
	} else {
		bo.FreelistType = bolt.FreelistArrayType
	}
	return bo
}

// Open opens a database with OpenOpts.
func Open(path string, o gen.OpenOpts) (*bolt.DB, error) {
	mode := os.FileMode(0600)
	db, err := bolt.Open(path, mode, Options(o))
	if err != nil {
		return nil, err
	}
	db.StrictMode = o.StrictMode
	if o.AllocSize > 0 {
		db.AllocSize = o.AllocSize
	}
	return db, nil
}

// DumpBucket renders a real bucket in the model's canonical form, walking
// it forwards; while doing so it cross-checks the reverse walk, Get,
// ForEach and the nil-value convention for nested buckets.
func dumpBucket(b *bolt.Bucket, pfx string, out *[]string, problems *[]string, deep bool) {
	*out = append(*out, fmt.Sprintf("%s#seq=%d", pfx, b.Sequence()))
	c := b.Cursor()
	var keys [][]byte
	for k, v := c.First(); k != nil; k, v = c.Next() {
		keys = append(keys, k)
		if v == nil {
			child := b.Bucket(k)
			if child == nil {
				// a plain key whose (empty) value was Put as nil in this very transaction
				*out = append(*out, fmt.Sprintf("%s/%s=%s", pfx, model.KeyLabel(string(k)), model.ValLabel(nil)))
				continue
			}
			if g := b.Get(k); g != nil {
				*problems = append(*problems, fmt.Sprintf("%s: Get of nested bucket %s returned a value", pfx, model.KeyLabel(string(k))))
			}
			dumpBucket(child, pfx+"/"+model.KeyLabel(string(k)), out, problems, deep)
			continue
		}
		*out = append(*out, fmt.Sprintf("%s/%s=%s", pfx, model.KeyLabel(string(k)), model.ValLabel(v)))
		if deep {
			if g := b.Get(k); !bytes.Equal(g, v) {
				*problems = append(*problems, fmt.Sprintf("%s: Get(%s) differs from the cursor's value", pfx, model.KeyLabel(string(k))))
			}
			if b.Bucket(k) != nil {
				*problems = append(*problems, fmt.Sprintf("%s: Bucket(%s) non-nil for a plain key", pfx, model.KeyLabel(string(k))))
			}
		}
	}
	if deep {
		// reverse walk must be the mirror image
		i := len(keys) - 1
		for k, _ := c.Last(); k != nil; k, _ = c.Prev() {
			if i < 0 || !bytes.Equal(k, keys[i]) {
				*problems = append(*problems, fmt.Sprintf("%s: reverse walk differs from forward walk at index %d (%s)", pfx, i, model.KeyLabel(string(k))))
				break
			}
			i--
		}
		if i >= 0 && len(*problems) == 0 {
			*problems = append(*problems, fmt.Sprintf("%s: reverse walk ended early, %d keys not visited", pfx, i+1))
		}
		// ForEach must visit the same keys
		j := 0
		_ = b.ForEach(func(k, v []byte) error {
			if j >= len(keys) || !bytes.Equal(k, keys[j]) {
				*problems = append(*problems, fmt.Sprintf("%s: ForEach differs from the cursor walk at index %d", pfx, j))
			}
			j++
			return nil
		})
		if j != len(keys) {
			*problems = append(*problems, fmt.Sprintf("%s: ForEach visited %d keys, cursor %d", pfx, j, len(keys)))
		}
	}
}

// DumpTx renders everything a transaction can observe. problems lists
// internal inconsistencies between the different ways of reading.
func DumpTx(tx *bolt.Tx, deep bool) (dump []string, problems []string) {
	dump = append(dump, "#seq=0")
	c := tx.Cursor()
	for k, v := c.First(); k != nil; k, v = c.Next() {
		if v != nil {
			problems = append(problems, "root cursor returned a non-nil value")
		}
		b := tx.Bucket(k)
		if b == nil {
			problems = append(problems, "root key "+model.KeyLabel(string(k))+" is not a bucket")
			continue
		}
		dumpBucket(b, "/"+model.KeyLabel(string(k)), &dump, &problems, deep)
	}
	if deep {
		n := 0
		_ = tx.ForEach(func(name []byte, b *bolt.Bucket) error {
			n++
			if b == nil {
				problems = append(problems, "Tx.ForEach passed a nil bucket")
			}
			return nil
		})
	}
	return
}

// ModelDumpForTx renders the model's root in the same shape as DumpTx (the
// root has no sequence of its own visible through the API).
func ModelDump(m *model.Bucket) []string {
	d := m.Dump()
	d[0] = "#seq=0"
	return d
}

// inspectToModel converts bbolt's Inspect result.
func inspectToModel(s bolt.BucketStructure) model.Structure {
	out := model.Structure{Name: s.Name, KeyN: s.KeyN}
	for _, c := range s.Children {
		out.Children = append(out.Children, inspectToModel(c))
	}
	return out
}

// CheckTx runs Tx.Check and returns what it reported.
func CheckTx(tx *bolt.Tx) []string {
	var out []string
	for e := range tx.Check() {
		out = append(out, e.Error())
		if len(out) > 50 {
			// keep draining
			continue
		}
	}
	return out
}

// Violation is a detected property violation.
type Violation struct {
	Step int    `json:"step"`
	Kind string `json:"kind"` // short class, used as known-findings key
	Msg  string `json:"msg"`
}

func (v Violation) String() string { return fmt.Sprintf("step %d [%s] %s", v.Step, v.Kind, v.Msg) }

// Monitors selects which oracles run along a program.
type Monitors struct {
	API        bool // every API result vs M (C04/C05)
	Dumps      bool // dumps after every tx end and reopen vs M
	TxCheck    bool // Tx.Check after every commit (C07/C19a)
	Accounting bool // D page accounting + Stats + Tx.Page after every commit/reopen (C07)
	Format     bool // D's decoding of the file == API dump (C12)
	FreeExact  bool // freelist export == D's unreachable set at every reopen/commit (C13/C10)
	DeepDump   bool
	Backups    bool // every third commit: a backup (CopyFile) from the write transaction before it commits and from a read transaction after; D must read both (C12/C14)
}

// Stats collected while running.
type RunStats struct {
	Steps        int
	Commits      int
	Rollbacks    int
	Reopens      int
	APIChecks    int
	CursorCalls  int
	DumpChecks   int
	FileDecodes  int
	TxChecks     int
	Splits       int64
	Rebalances   int64
	Spills       int64
	MaxDepth     int
	DepthChanges int
	OverflowSeen bool
	InlineSeen   bool
	InlineToPage int // inline bucket became a paged bucket
	PageToInline int
	EmptyLeafCur int // cursor calls made while the tx had emptied ranges
	ErrProbes    int
	Backups      int
	Transitions  map[string]int
	Transcript   string
	LastDecode   *decode.Result `json:"-"`
}

// Runner executes one program.
type Runner struct {
	Path  string
	Mon   Monitors
	Sim   *gen.Sim
	DB    *bolt.DB
	Tx    *bolt.Tx
	Stats RunStats
	Viol  []Violation
	fill  float64
	opts  gen.OpenOpts
	step  int
	// hooks for drivers
	AfterCommit func(r *Runner)                     // called after a successful commit, DB open, no tx
	AfterOpen   func(r *Runner)                     // after open/reopen
	BeforeClose func(r *Runner)                     // before close
	OnStep      func(r *Runner, i int, s *gen.Step) // before each step
	OnFailed    func(r *Runner, present bool)       // after a commit that returned an error
	Tracer      Injector                            // fault injector (nil: no faults)
	GlobalFault bool                                // one fault is armed for the whole program (C08 enumeration)
	FaultLog    []FaultOutcome
	prevInline  map[string]bool
	prevDepth   int
	transcript  hash.Hash
	lastAPIDump []string
	aux         bool // current step is auxiliary (not part of the transcript)
	statsFresh  bool // a write transaction has closed since the last open (DB.Stats is refreshed only then)
	managed     *managedTx
	held        []*heldReader
}

// heldReader is a read transaction kept open across later write transactions of the program.
type heldReader struct {
	tx   *bolt.Tx
	want []string // the committed state when it began
	id   int
}

// managedTx is a write transaction run inside DB.Update: the body parks in a goroutine while the
// runner executes the program's steps on its *Tx, and finally returns nil, returns an error or panics.
type managedTx struct {
	ctl     chan string
	done    chan error
	foreign any // a panic that is not ours
}

type managedPanic struct{}

var errManagedBody = errors.New("verif: transaction body returns an error")
var errManagedPanic = errors.New("verif: transaction body panicked")

// note feeds one observed API result into the transcript hash.
func (r *Runner) note(format string, a ...any) {
	if r.aux {
		return
	}
	if r.transcript == nil {
		r.transcript = sha256.New()
	}
	fmt.Fprintf(r.transcript, format, a...)
	r.transcript.Write([]byte{0})
}

// Transcript returns the hash of all API results observed so far.
func (r *Runner) Transcript() string {
	if r.transcript == nil {
		return ""
	}
	return fmt.Sprintf("%x", r.transcript.Sum(nil)[:12])
}

func NewRunner(path string, mon Monitors) *Runner {
	return &Runner{Path: path, Mon: mon, Sim: gen.NewSim(), Stats: RunStats{Transitions: map[string]int{}}}
}

func (r *Runner) fail(kind, format string, a ...any) {
	if len(r.Viol) < 20 {
		r.Viol = append(r.Viol, Violation{Step: r.step, Kind: kind, Msg: fmt.Sprintf(format, a...)})
	}
}

func (r *Runner) resolve(p []int) *bolt.Bucket {
	if len(p) == 0 {
		return nil
	}
	names := gen.Path(p)
	b := r.Tx.Bucket([]byte(names[0]))
	for _, n := range names[1:] {
		if b == nil {
			return nil
		}
		b = b.Bucket([]byte(n))
	}
	if b != nil && r.fill > 0 && r.Tx.Writable() {
		b.FillPercent = r.fill
	}
	return b
}

// Injector is the part of the I/O tracer the runner needs for failed commits.
type Injector interface {
	ArmFault(k int, partial int)
	DisarmFault() (counted int, firedOp string, firedOff int64, metaWritten bool)
	// Mark / SinceMark serve a fault armed for a whole program: what happened since the mark?
	Mark()
	SinceMark() (counted int, firedOp string, firedOff int64, metaWritten bool)
}

// FaultOutcome records one injected commit failure.
type FaultOutcome struct {
	K           int    `json:"k"`
	Events      int    `json:"events"`
	FiredOp     string `json:"fired_op"`
	MetaWritten bool   `json:"meta_written"`
	Err         string `json:"err"`
	Present     bool   `json:"present"`
}

// Cleanup releases everything the runner still holds. It must be called in
// a defer by whoever runs a program.
func (r *Runner) Cleanup() {
	for _, h := range r.held {
		func() {
			defer func() { _ = recover() }()
			_ = h.tx.Rollback()
		}()
	}
	r.held = nil
	if r.managed != nil {
		m := r.managed
		r.managed = nil
		r.Tx = nil
		func() {
			defer func() { _ = recover() }()
			m.ctl <- "error"
			<-m.done
		}()
	}
	if r.Tx != nil {
		func() {
			defer func() { _ = recover() }()
			_ = r.Tx.Rollback()
		}()
		r.Tx = nil
	}
	if r.DB != nil {
		func() {
			defer func() { _ = recover() }()
			_ = r.DB.Close()
		}()
		r.DB = nil
	}
}

func valEq(a, b []byte) bool { return bytes.Equal(a, b) }

func (r *Runner) cmpCur(what string, want model.CurRes, k, v []byte) {
	r.Stats.CursorCalls++
	r.note("cur %x %x", k, v)
	if !want.Present {
		if k != nil {
			r.fail("cursor", "%s returned key %s, model says nil", what, model.KeyLabel(string(k)))
		} else if v != nil {
			r.fail("cursor", "%s returned nil key with a non-nil value", what)
		}
		return
	}
	if k == nil {
		r.fail("cursor", "%s returned nil, model says %s", what, model.KeyLabel(want.Key))
		return
	}
	if string(k) != want.Key {
		r.fail("cursor", "%s returned %s, model says %s", what, model.KeyLabel(string(k)), model.KeyLabel(want.Key))
		return
	}
	if want.IsBucket {
		if v != nil {
			r.fail("cursor", "%s: nested bucket %s returned with a non-nil value", what, model.KeyLabel(want.Key))
		}
		return
	}
	// nil and empty are the same byte string: a key Put with a nil/empty value in
	// this very transaction is handed back with a nil slice.
	if !valEq(v, want.Val) {
		r.fail("cursor", "%s: key %s value %s, model %s", what, model.KeyLabel(want.Key), model.ValLabel(v), model.ValLabel(want.Val))
	}
}

// quiescent runs the oracles that need a database at rest (no open tx of ours).
func (r *Runner) quiescent(what string) {
	if r.DB == nil {
		return
	}
	if r.Mon.Dumps || r.Mon.TxCheck {
		err := r.DB.View(func(tx *bolt.Tx) error {
			if r.Mon.Dumps {
				got, probs := DumpTx(tx, r.Mon.DeepDump)
				r.lastAPIDump = got
				r.note("dump %s", strings.Join(got, "\n"))
				r.Stats.DumpChecks++
				for _, p := range probs {
					r.fail("read-paths-disagree", "%s: %s", what, p)
				}
				if d := model.DiffDumps(ModelDump(r.Sim.Committed), got); d != "" {
					r.fail("dump", "%s: content differs from the model: %s", what, d)
				}
				ins := inspectToModel(tx.Inspect())
				want := r.Sim.Committed.Inspect("root")
				want.KeyN = 0
				if ins.String() != want.String() {
					r.fail("inspect", "%s: Inspect %s, model %s", what, ins.String(), want.String())
				}
			}
			if r.Mon.Backups && r.Stats.Commits%3 == 1 {
				r.backupOracle(tx, ModelDump(r.Sim.Committed), "a read transaction")
			}
			if r.Mon.TxCheck {
				r.Stats.TxChecks++
				if errs := CheckTx(tx); len(errs) > 0 {
					r.fail("txcheck:"+classifyCheck(errs[0]), "%s: Tx.Check reports %d problem(s): %s", what, len(errs), strings.Join(firstN(errs, 3), "; "))
				}
			}
			return nil
		})
		if err != nil {
			r.fail("view", "%s: View failed: %v", what, err)
		}
	}
	if r.Mon.Accounting || r.Mon.Format || r.Mon.FreeExact {
		r.fileOracles(what)
	}
}

func firstN(s []string, n int) []string {
	if len(s) > n {
		return s[:n]
	}
	return s
}

func classifyCheck(msg string) string {
	for _, k := range []string{"unreachable unfreed", "reachable freed", "multiple references", "already freed", "invalid type", "out of bounds", "needs to be", "unexpected page type"} {
		if strings.Contains(msg, k) {
			return strings.ReplaceAll(k, " ", "-")
		}
	}
	return "other"
}

// fileOracles reads the file back with D.
func (r *Runner) fileOracles(what string) {
	img, err := os.ReadFile(r.Path)
	if err != nil {
		r.fail("io", "read file: %v", err)
		return
	}
	res := decode.Decode(img, decode.Options{})
	r.Stats.FileDecodes++
	r.Stats.LastDecode = res
	r.trackStructure(res)
	if r.Mon.Accounting || r.Mon.Format {
		for _, e := range res.Errors {
			kind := "decode"
			switch {
			case strings.Contains(e, "neither reachable nor free"):
				kind = "leak"
			case strings.Contains(e, "referenced twice"):
				kind = "double-ref"
			case strings.Contains(e, "free and in use"):
				kind = "free-and-used"
			case strings.Contains(e, "listed twice"):
				kind = "double-free"
			}
			if !r.Mon.Accounting && kind != "decode" {
				continue // page accounting is C07's oracle
			}
			r.fail("D:"+kind, "%s: independent decoder: %s", what, e)
			break
		}
	}
	if r.Mon.Format && res.Content != nil {
		r.Stats.APIChecks++
		ref, refName := ModelDump(r.Sim.Committed), "model"
		if r.Mon.Dumps && r.lastAPIDump != nil {
			ref, refName = r.lastAPIDump, "API dump"
		}
		if d := model.DiffDumps(ref, ModelDump(res.Content)); d != "" {
			r.fail("format", "%s: file decoded by the independent decoder differs from the %s: %s", what, refName, strings.Replace(d, "real", "decoder", -1))
		}
	}
	if (r.Mon.Accounting || r.Mon.FreeExact) && len(res.Errors) == 0 {
		r.accounting(what, res)
	}
}

func (r *Runner) trackStructure(res *decode.Result) {
	if res == nil || res.Content == nil {
		return
	}
	if res.Depth > r.Stats.MaxDepth {
		r.Stats.MaxDepth = res.Depth
	}
	if r.prevDepth != 0 && res.Depth != r.prevDepth {
		r.Stats.DepthChanges++
		if res.Depth > r.prevDepth {
			r.Stats.Transitions["depth-up"]++
		} else {
			r.Stats.Transitions["depth-down"]++
		}
	}
	r.prevDepth = res.Depth
	if res.OverflowN > 0 {
		r.Stats.OverflowSeen = true
		r.Stats.Transitions["overflow-present"]++
	}
	if res.InlineN > 0 {
		r.Stats.InlineSeen = true
	}
	// inline <-> paged transitions per logical bucket path
	for k, v := range res.Inline {
		if pv, ok := r.prevInline[k]; ok && pv != v {
			if pv {
				r.Stats.InlineToPage++
				r.Stats.Transitions["inline->paged"]++
			} else {
				r.Stats.PageToInline++
				r.Stats.Transitions["paged->inline"]++
			}
		}
	}
	r.prevInline = res.Inline
}

// Run executes the program. It recovers panics of the code under test and
// reports them as violations (kind "panic").
func (r *Runner) Run(p *gen.Program) (viol []Violation) {
	defer func() {
		if x := recover(); x != nil {
			r.fail("panic", "panic: %v", x)
		}
		r.Cleanup()
		r.Stats.Transcript = r.Transcript()
		viol = r.Viol
	}()
	for i := range p.Steps {
		r.step = i
		r.Stats.Steps++
		if r.OnStep != nil {
			r.OnStep(r, i, &p.Steps[i])
		}
		r.doStep(&p.Steps[i])
		if len(r.Viol) > 0 {
			return
		}
	}
	return
}

// Exec executes one step (for drivers that interleave steps with their own
// events); it reports whether a violation has been recorded. Panics of the
// code under test are converted into violations.
func (r *Runner) Exec(st *gen.Step) (bad bool) {
	defer func() {
		if x := recover(); x != nil {
			r.fail("panic", "panic: %v", x)
			bad = true
		}
	}()
	r.step++
	r.Stats.Steps++
	r.doStep(st)
	return len(r.Viol) > 0
}

// Fail lets a driver record a violation through the runner.
func (r *Runner) Fail(kind, format string, a ...any) { r.fail(kind, format, a...) }

func (r *Runner) doStep(st *gen.Step) {
	r.aux = st.How == "aux"
	if st.Op == "commit" && r.Tx != nil && r.Tracer != nil && (strings.HasPrefix(st.How, "fail:") || r.GlobalFault) {
		r.commitWithFault(st)
		return
	}
	if st.Op == "commit" && st.How == "maxsize" && r.Tx != nil {
		r.commitMaxSize()
		return
	}
	if st.Op == "commit" && r.Mon.Backups && r.Tx != nil && r.Tx.Writable() && r.Stats.Commits%3 == 0 {
		// the file does not hold this transaction's changes yet: the copy must be the state it started from
		r.backupOracle(r.Tx, ModelDump(r.Sim.Committed), "a write transaction before its commit")
	}
	if r.managed != nil && (st.Op == "commit" || st.Op == "rollback") {
		r.Sim.Apply(st)
		r.finishManaged(st)
		return
	}
	exp := r.Sim.Apply(st)
	switch st.Op {
	case "open", "reopen":
		if r.Tracer != nil && r.GlobalFault {
			r.Tracer.Mark()
		}
		db, err := Open(r.Path, *st.Opts)
		if err != nil && r.Tracer != nil && r.GlobalFault {
			if _, firedOp, _, _ := r.Tracer.SinceMark(); firedOp != "" {
				// the injected fault hit this Open: it must fail cleanly, and the next attempt must succeed
				r.Stats.Transitions["failed-open:"+firedOp]++
				r.FaultLog = append(r.FaultLog, FaultOutcome{FiredOp: "open:" + firedOp, Err: err.Error()})
				db, err = Open(r.Path, *st.Opts)
			}
		}
		if err != nil {
			r.fail("open", "open(%s): %v", st.Opts, err)
			return
		}
		r.DB = db
		r.statsFresh = false
		r.opts = *st.Opts
		if st.Op == "reopen" {
			r.Stats.Reopens++
		}
		if r.AfterOpen != nil {
			r.AfterOpen(r)
		}
		r.quiescent(st.Op)
		return
	case "heldBegin":
		if r.DB == nil || r.Tx != nil {
			return
		}
		tx, err := r.DB.Begin(false)
		if err != nil {
			r.fail("begin", "Begin(false) for a held reader: %v", err)
			return
		}
		r.held = append(r.held, &heldReader{tx: tx, want: ModelDump(r.Sim.Committed), id: int(tx.ID())})
		r.Stats.Transitions["held-reader"]++
		return
	case "heldEnd":
		if len(r.held) == 0 || r.Tx != nil {
			return
		}
		i := st.N % len(r.held)
		r.endHeld(i)
		return
	case "close":
		if r.DB == nil {
			return
		}
		for len(r.held) > 0 { // Close waits for every read transaction
			r.endHeld(0)
		}
		if r.BeforeClose != nil {
			r.BeforeClose(r)
		}
		if err := r.DB.Close(); err != nil {
			r.fail("close", "close: %v", err)
		}
		r.DB = nil
		return
	case "begin":
		if st.W && st.How == "update" {
			r.beginManaged(exp)
			return
		}
		tx, err := r.DB.Begin(st.W)
		if !ErrMatch(exp.Err, err) {
			r.fail("begin", "Begin(%v) = %v, model %q", st.W, err, exp.Err)
		}
		if err == nil {
			r.Tx = tx
			r.fill = 0
		}
		return
	case "commit":
		ts := r.Tx.Stats()
		r.statsFresh = true
		err := r.Tx.Commit()
		r.Tx = nil
		if err != nil {
			r.fail("commit", "Commit: %v", err)
			return
		}
		r.Stats.Commits++
		_ = ts
		s := r.DB.Stats().TxStats
		r.Stats.Splits, r.Stats.Rebalances, r.Stats.Spills = s.GetSplit(), s.GetRebalance(), s.GetSpill()
		r.quiescent("after commit")
		if r.AfterCommit != nil {
			r.AfterCommit(r)
		}
		return
	case "rollback":
		if r.Tx.Writable() {
			r.statsFresh = true
		}
		err := r.Tx.Rollback()
		r.Tx = nil
		if err != nil {
			r.fail("rollback", "Rollback: %v", err)
		}
		r.Stats.Rollbacks++
		r.quiescent("after rollback")
		return
	case "probeClosed":
		r.probeClosed()
		return
	}
	if r.Tx == nil {
		return
	}
	tx := r.Tx
	if st.Op == "dump" {
		if r.Mon.API {
			got, probs := DumpTx(tx, r.Mon.DeepDump)
			r.Stats.DumpChecks++
			for _, p := range probs {
				r.fail("read-paths-disagree", "in-tx: %s", p)
			}
			if d := model.DiffDumps(ModelDump(r.Sim.Cur), got); d != "" {
				r.fail("own-writes", "in-transaction content differs from the model: %s", d)
			}
			ins := inspectToModel(tx.Inspect())
			want := r.Sim.Cur.Inspect("root")
			want.KeyN = 0
			if ins.String() != want.String() {
				r.fail("inspect", "in-tx Inspect %s, model %s", ins.String(), want.String())
			}
		}
		return
	}
	if st.Op == "fill" {
		r.fill = st.F
		return
	}
	// resolve the bucket
	var b *bolt.Bucket
	if len(st.P) > 0 {
		b = r.resolve(st.P)
		if (b == nil) != exp.NilBkt {
			r.fail("resolve", "bucket path %v resolves to nil=%v, model nil=%v", gen.Path(st.P), b == nil, exp.NilBkt)
			return
		}
		if b == nil {
			return
		}
	} else if exp.NilBkt {
		return
	}
	if st.Op == "bucketNil" {
		return
	}
	api := func(what string, err error) {
		r.note("%s %s", what, ErrName(err))
		r.Stats.APIChecks++
		if exp.Err != model.OK {
			r.Stats.ErrProbes++
		}
		if r.Mon.API && !ErrMatch(exp.Err, err) {
			r.fail("api-error", "%s returned %v, model expects %q", what, err, exp.Err)
		}
	}
	switch st.Op {
	case "create":
		var err error
		var nb *bolt.Bucket
		if b == nil {
			nb, err = tx.CreateBucket([]byte(gen.BucketName(st.N)))
		} else {
			nb, err = b.CreateBucket([]byte(gen.BucketName(st.N)))
		}
		api("CreateBucket", err)
		if r.Mon.API && (err == nil) != (nb != nil) {
			r.fail("api", "CreateBucket: bucket nil=%v with err=%v", nb == nil, err)
		}
	case "createIf":
		var err error
		if b == nil {
			_, err = tx.CreateBucketIfNotExists([]byte(gen.BucketName(st.N)))
		} else {
			_, err = b.CreateBucketIfNotExists([]byte(gen.BucketName(st.N)))
		}
		api("CreateBucketIfNotExists", err)
	case "delBucket":
		var err error
		if b == nil {
			err = tx.DeleteBucket([]byte(gen.BucketName(st.N)))
		} else {
			err = b.DeleteBucket([]byte(gen.BucketName(st.N)))
		}
		api("DeleteBucket", err)
	case "move":
		var dst *bolt.Bucket
		if len(st.D) > 0 {
			dst = r.resolve(st.D)
			if (dst == nil) != exp.NilDst {
				r.fail("resolve", "move destination %v resolves to nil=%v, model nil=%v", gen.Path(st.D), dst == nil, exp.NilDst)
				return
			}
			if dst == nil {
				return
			}
		}
		err := tx.MoveBucket([]byte(gen.BucketName(st.N)), b, dst)
		api("MoveBucket", err)
	case "put":
		api("Put", b.Put(st.K.Bytes(), st.V.Bytes()))
	case "del":
		api("Delete", b.Delete(st.K.Bytes()))
	case "delRange":
		if exp.Err != model.OK {
			api("Delete", b.Delete(st.K.Bytes()))
			return
		}
		// the model has already removed them; enumerate from the real bucket
		lo, hi := st.K.Bytes(), st.K2.Bytes()
		var ks [][]byte
		c := b.Cursor()
		for k, v := c.Seek(lo); k != nil && bytes.Compare(k, hi) <= 0; k, v = c.Next() {
			if v != nil || b.Bucket(k) == nil {
				ks = append(ks, append([]byte{}, k...))
			}
		}
		for _, k := range ks {
			if st.How == "cursor" {
				c := b.Cursor()
				if kk, _ := c.Seek(k); !bytes.Equal(kk, k) {
					r.fail("cursor", "Seek(%s) for delete landed on %s", model.KeyLabel(string(k)), model.KeyLabel(string(kk)))
					return
				}
				if err := c.Delete(); err != nil {
					r.fail("api-error", "Cursor.Delete: %v", err)
					return
				}
			} else if err := b.Delete(k); err != nil {
				r.fail("api-error", "Delete in range: %v", err)
				return
			}
		}
		r.Stats.Transitions["range-delete"]++
	case "get":
		r.Stats.APIChecks++
		v := b.Get(st.K.Bytes())
		r.note("get %x", v)
		if r.Mon.API {
			if exp.Present && (v == nil && len(exp.Val) > 0 || !valEq(v, exp.Val)) {
				r.fail("get", "Get(%s) = %s, model %s", model.KeyLabel(string(st.K.Bytes())), model.ValLabel(v), model.ValLabel(exp.Val))
			}
			if !exp.Present && v != nil {
				r.fail("get", "Get(%s) = %s for a key the model does not have", model.KeyLabel(string(st.K.Bytes())), model.ValLabel(v))
			}
		}
	case "seq":
		r.Stats.APIChecks++
		if r.Mon.API && b.Sequence() != exp.Seq {
			r.fail("sequence", "Sequence()=%d, model %d", b.Sequence(), exp.Seq)
		}
	case "setSeq":
		api("SetSequence", b.SetSequence(st.U))
	case "nextSeq":
		v, err := b.NextSequence()
		api("NextSequence", err)
		if r.Mon.API && err == nil && v != exp.Seq {
			r.fail("sequence", "NextSequence()=%d, model %d", v, exp.Seq)
		}
	case "cursor":
		var c *bolt.Cursor
		if b == nil {
			c = tx.Cursor()
		} else {
			c = b.Cursor()
		}
		trail := ""
		for i, call := range st.Cur {
			var k, v []byte
			what := call.C
			switch call.C {
			case "F":
				k, v = c.First()
			case "L":
				k, v = c.Last()
			case "N":
				k, v = c.Next()
			case "P":
				k, v = c.Prev()
			case "S":
				k, v = c.Seek(call.K.Bytes())
				what = "S(" + model.KeyLabel(string(call.K.Bytes())) + ")"
			case "D":
				c.Seek(call.K.Bytes())
				err := c.Delete()
				r.Stats.APIChecks++
				if r.Mon.API && !ErrMatch(exp.Cur[i].Key, err) {
					r.fail("api-error", "Cursor.Delete at %s returned %v, model %q", model.KeyLabel(string(call.K.Bytes())), err, exp.Cur[i].Key)
				}
				if b == nil {
					c = tx.Cursor()
				} else {
					c = b.Cursor()
				}
				trail += " D"
				continue
			}
			trail += " " + what
			if len(trail) > 200 {
				trail = "…" + trail[len(trail)-180:]
			}
			if r.Mon.API {
				r.cmpCur("cursor"+trail, exp.Cur[i], k, v)
				if len(r.Viol) > 0 {
					return
				}
			}
		}
	case "forEach":
		i := 0
		err := b.ForEach(func(k, v []byte) error {
			if r.Mon.API {
				if i >= len(exp.Cur) {
					r.fail("foreach", "ForEach visits more keys than the model has (%s)", model.KeyLabel(string(k)))
					return errors.New("stop")
				}
				r.cmpCur(fmt.Sprintf("ForEach[%d]", i), exp.Cur[i], k, v)
			}
			i++
			return nil
		})
		if r.Mon.API && err == nil && i != len(exp.Cur) {
			r.fail("foreach", "ForEach visited %d keys, model has %d", i, len(exp.Cur))
		}
		// ForEachBucket
		var subs []string
		_ = b.ForEachBucket(func(k []byte) error { subs = append(subs, string(k)); return nil })
		var wantSubs []string
		for _, e := range exp.Cur {
			if e.IsBucket {
				wantSubs = append(wantSubs, e.Key)
			}
		}
		if r.Mon.API && strings.Join(subs, "\x00") != strings.Join(wantSubs, "\x00") {
			r.fail("foreach", "ForEachBucket visited %d buckets, model has %d", len(subs), len(wantSubs))
		}
	case "stats":
		// only meaningful in transactions that did not modify the bucket (Stats walks on-disk pages)
		if !tx.Writable() && r.Mon.API {
			s := b.Stats()
			mb := r.Sim.Cur.At(gen.Path(st.P))
			keyN, bucketN := countModel(mb)
			r.Stats.APIChecks++
			if s.KeyN != keyN || s.BucketN != bucketN {
				r.fail("stats", "Bucket.Stats KeyN=%d BucketN=%d, model %d/%d", s.KeyN, s.BucketN, keyN, bucketN)
			}
		}
	}
}

func countModel(b *model.Bucket) (keys, buckets int) {
	keys = len(b.KV) + len(b.Sub)
	buckets = 1
	for _, s := range b.Sub {
		k, bn := countModel(s)
		keys += k
		buckets += bn
	}
	return
}

// probeClosed: every operation on a closed transaction returns ErrTxClosed.
func (r *Runner) probeClosed() {
	if r.DB == nil || !r.Mon.API {
		return
	}
	tx, err := r.DB.Begin(true)
	if err != nil {
		r.fail("begin", "Begin: %v", err)
		return
	}
	b, _ := tx.CreateBucketIfNotExists([]byte("zz-probe"))
	if err := tx.Rollback(); err != nil {
		r.fail("rollback", "Rollback: %v", err)
	}
	chk := func(what string, err error) {
		r.Stats.ErrProbes++
		if ErrName(err) != model.ErrTxClosed {
			r.fail("api-error", "%s on a closed transaction returned %v, want ErrTxClosed", what, err)
		}
	}
	chk("Commit", tx.Commit())
	chk("Rollback", tx.Rollback())
	_, err = tx.CreateBucket([]byte("x"))
	chk("CreateBucket", err)
	_, err = tx.CreateBucketIfNotExists([]byte("x"))
	chk("CreateBucketIfNotExists", err)
	chk("DeleteBucket", tx.DeleteBucket([]byte("x")))
	if b != nil {
		chk("Put", b.Put([]byte("k"), []byte("v")))
		chk("Delete", b.Delete([]byte("k")))
		_, err = b.NextSequence()
		chk("NextSequence", err)
		chk("SetSequence", b.SetSequence(1))
		chk("ForEach", b.ForEach(func(k, v []byte) error { return nil }))
		_, err = b.CreateBucket([]byte("y"))
		chk("Bucket.CreateBucket", err)
		chk("Bucket.DeleteBucket", b.DeleteBucket([]byte("y")))
	}
}

// commitWithFault commits with one injected I/O failure ("fail:<k>[:<partial>]").
// If the k-th I/O event of the commit exists it fails once; the commit must then
// report an error and be entirely absent - unless the failing event is the final
// sync after the meta page was written, where it may be entirely present.
func (r *Runner) commitWithFault(st *gen.Step) {
	var k, partial int
	txid := r.Tx.ID()
	global := !strings.HasPrefix(st.How, "fail:")
	if global {
		r.Tracer.Mark()
	} else {
		fmt.Sscanf(strings.TrimPrefix(st.How, "fail:"), "%d:%d", &k, &partial)
		r.Tracer.ArmFault(k, partial)
	}
	r.statsFresh = true
	err := r.Tx.Commit()
	r.Tx = nil
	var counted int
	var firedOp string
	var metaWritten bool
	if global {
		counted, firedOp, _, metaWritten = r.Tracer.SinceMark()
	} else {
		counted, firedOp, _, metaWritten = r.Tracer.DisarmFault()
	}
	fo := FaultOutcome{K: k, Events: counted, FiredOp: firedOp, MetaWritten: metaWritten}
	if firedOp == "" {
		// the commit issued fewer than k events: an ordinary commit
		if err != nil {
			r.fail("commit", "Commit: %v", err)
			return
		}
		r.Sim.Apply(&gen.Step{Op: "commit"})
		r.Stats.Commits++
		r.FaultLog = append(r.FaultLog, fo)
		r.quiescent("after commit")
		if r.AfterCommit != nil {
			r.AfterCommit(r)
		}
		return
	}
	if err == nil {
		r.fail("fault:no-error", "Commit returned nil although its I/O event %d (%s) failed", k, firedOp)
		return
	}
	fo.Err = err.Error()
	if firedOp == "mmap" {
		// The DB object is left unmapped by design. "Proceeds without blocking" then means: every
		// later Begin returns promptly (a transaction or ErrInvalidMapping); content and accounting
		// are judged after close and reopen.
		r.Sim.Apply(&gen.Step{Op: "rollback"})
		r.FaultLog = append(r.FaultLog, fo)
		r.Stats.Transitions["failed-commit:mmap"]++
		for _, w := range []bool{true, false} {
			tx, berr := r.DB.Begin(w)
			if berr == nil {
				_ = tx.Rollback()
			} else if !errors.Is(berr, berrors.ErrInvalidMapping) {
				r.fail("fault:unusable", "Begin(%v) after a failed remap: %v", w, berr)
			}
		}
		if cerr := r.DB.Close(); cerr != nil {
			r.fail("fault:unusable", "Close after a failed remap: %v", cerr)
		}
		db, oerr := Open(r.Path, r.opts)
		if oerr != nil {
			r.DB = nil
			r.fail("fault:unusable", "reopen after a failed remap: %v", oerr)
			return
		}
		r.DB = db
		r.statsFresh = false
		r.quiescent("after failed remap and reopen")
		if r.OnFailed != nil {
			r.OnFailed(r, false)
		}
		return
	}
	// which outcome is in effect in this process?
	present := false
	verr := r.DB.View(func(tx *bolt.Tx) error { present = tx.ID() >= txid; return nil })
	if verr != nil {
		r.fail("fault:unusable", "View after a failed commit: %v", verr)
		return
	}
	fo.Present = present
	r.FaultLog = append(r.FaultLog, fo)
	if present {
		// allowed only if the meta page content had completely reached the file before the failure
		// (the failing call is then the final sync, or a meta write torn behind its meaningful bytes)
		if !metaWritten || !(firedOp == "fdatasync" || firedOp == "write") {
			r.fail("fault:visible", "commit failed at event %d (%s, meta page written: %v) but the transaction is in effect", k, firedOp, metaWritten)
			return
		}
		r.Sim.Apply(&gen.Step{Op: "commit"})
		r.Stats.Transitions["failed-final-sync-present"]++
	} else {
		r.Sim.Apply(&gen.Step{Op: "rollback"})
		r.Stats.Transitions["failed-commit-absent"]++
	}
	r.Stats.Transitions["failed-commit:"+firedOp]++
	r.quiescent("after failed commit")
	if r.OnFailed != nil {
		r.OnFailed(r, present)
	}
}

// commitMaxSize commits the open write transaction with a size limit in force that no growth of the
// file can satisfy (DB.MaxSize is an exported, documented field; it is set for the duration of this
// Commit only). If the transaction has to extend the high-water mark the commit must fail with the
// size-limit error and leave no trace; if it fits into free pages it is an ordinary commit.
func (r *Runner) commitMaxSize() {
	r.statsFresh = true
	r.DB.MaxSize = 1
	err := r.Tx.Commit()
	r.DB.MaxSize = 0
	r.Tx = nil
	switch {
	case err == nil:
		r.Sim.Apply(&gen.Step{Op: "commit"})
		r.Stats.Commits++
		r.FaultLog = append(r.FaultLog, FaultOutcome{})
		r.quiescent("after commit")
		if r.AfterCommit != nil {
			r.AfterCommit(r)
		}
	case errors.Is(err, berrors.ErrMaxSizeReached):
		r.Sim.Apply(&gen.Step{Op: "rollback"})
		r.FaultLog = append(r.FaultLog, FaultOutcome{FiredOp: "maxsize", Err: err.Error()})
		r.Stats.Transitions["failed-commit:maxsize"]++
		r.quiescent("after a commit rejected by the size limit")
		if r.OnFailed != nil {
			r.OnFailed(r, false)
		}
	default:
		r.fail("fault:wrong-error", "commit under an unsatisfiable size limit failed with %v, want the size-limit error", err)
	}
}

// beginManaged starts DB.Update in a goroutine and parks its body; the program's steps then run on the body's *Tx.
func (r *Runner) beginManaged(exp gen.Exp) {
	m := &managedTx{ctl: make(chan string), done: make(chan error, 1)}
	ready := make(chan *bolt.Tx, 1)
	db := r.DB
	go func() {
		entered := false
		err := func() (err error) {
			defer func() {
				if x := recover(); x != nil {
					if _, ours := x.(managedPanic); !ours {
						m.foreign = x
					}
					err = errManagedPanic
				}
			}()
			return db.Update(func(tx *bolt.Tx) error {
				entered = true
				ready <- tx
				switch <-m.ctl {
				case "commit":
					return nil
				case "panic":
					panic(managedPanic{})
				}
				return errManagedBody
			})
		}()
		if !entered {
			ready <- nil
		}
		m.done <- err
	}()
	tx := <-ready
	if tx == nil {
		err := <-m.done
		if !ErrMatch(exp.Err, err) || err == nil {
			r.fail("begin", "Update = %v before running its body, model %q", err, exp.Err)
		}
		return
	}
	if exp.Err != model.OK {
		r.fail("begin", "Update ran its body, model expects %q", exp.Err)
	}
	r.Tx = tx
	r.fill = 0
	r.managed = m
}

// finishManaged lets the parked body return nil (commit), return an error, or panic.
func (r *Runner) finishManaged(st *gen.Step) {
	m := r.managed
	mode := "commit"
	if st.Op == "rollback" {
		mode = "error"
		if st.How == "panic" {
			mode = "panic"
		}
	}
	r.statsFresh = true
	m.ctl <- mode
	err := <-m.done
	r.Tx = nil
	r.managed = nil
	if m.foreign != nil {
		r.fail("panic", "panic inside Update: %v", m.foreign)
		return
	}
	switch mode {
	case "commit":
		if err != nil {
			r.fail("commit", "Update: %v", err)
			return
		}
		r.Stats.Commits++
		s := r.DB.Stats().TxStats
		r.Stats.Splits, r.Stats.Rebalances, r.Stats.Spills = s.GetSplit(), s.GetRebalance(), s.GetSpill()
		r.Stats.Transitions["update-commit"]++
		r.quiescent("after commit (Update)")
		if r.AfterCommit != nil {
			r.AfterCommit(r)
		}
	case "error":
		if !errors.Is(err, errManagedBody) {
			r.fail("update", "Update whose body returned an error returned %v", err)
		}
		r.Stats.Rollbacks++
		r.Stats.Transitions["update-error"]++
		r.quiescent("after an Update whose body returned an error")
	case "panic":
		if !errors.Is(err, errManagedPanic) {
			r.fail("update", "Update whose body panicked ended with %v", err)
		}
		r.Stats.Rollbacks++
		r.Stats.Transitions["update-panic"]++
		r.quiescent("after an Update whose body panicked")
	}
}

// endHeld re-reads everything through held reader i (it must still show the state committed when it
// began, however many write transactions came after), then closes it.
func (r *Runner) endHeld(i int) {
	h := r.held[i]
	r.held = append(r.held[:i:i], r.held[i+1:]...)
	got, probs := DumpTx(h.tx, r.Mon.DeepDump)
	r.Stats.DumpChecks++
	for _, p := range probs {
		r.fail("read-paths-disagree", "held reader (id %d): %s", h.id, p)
	}
	if d := model.DiffDumps(h.want, got); d != "" {
		r.fail("snapshot", "a read transaction (id %d) held across later write transactions no longer shows the state it began with: %s", h.id, d)
	}
	if err := h.tx.Rollback(); err != nil {
		r.fail("rollback", "held reader Rollback: %v", err)
	}
}

// backupOracle copies the database through tx and has the independent decoder read the copy.
func (r *Runner) backupOracle(tx *bolt.Tx, want []string, what string) {
	p := r.Path + ".bak"
	defer os.Remove(p)
	size := tx.Size()
	if err := tx.CopyFile(p, 0600); err != nil {
		r.fail("backup", "CopyFile from %s: %v", what, err)
		return
	}
	img, err := os.ReadFile(p)
	if err != nil {
		r.fail("backup", "backup unreadable: %v", err)
		return
	}
	r.Stats.Backups++
	if int64(len(img)) != size {
		r.fail("backup:size", "backup from %s has %d bytes, tx.Size() = %d", what, len(img), size)
	}
	d := decode.Decode(img, decode.Options{NoParity: true})
	for slot := 0; slot < 2; slot++ {
		if !d.Metas[slot].Valid {
			r.fail("backup:meta", "meta page %d of a backup taken from %s is not a valid checksummed meta: %s", slot, what, d.Metas[slot].Why)
		}
	}
	if len(d.Errors) > 0 {
		r.fail("backup:decode", "independent decoder on a backup taken from %s: %s", what, d.Errors[0])
		return
	}
	if d.Content != nil {
		if diff := model.DiffDumps(want, ModelDump(d.Content)); diff != "" {
			r.fail("backup:content", "backup taken from %s decodes to a different content: %s", what, diff)
		}
	}
}
