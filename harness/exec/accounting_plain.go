//go:build !verif

package exec

import "go.etcd.io/bbolt/verifh/decode"

// Without the verif hooks (golden-corpus generation against the pinned tree)
// there is no allocator export; accounting is skipped.
func (r *Runner) accounting(what string, res *decode.Result) {}
