//go:build verif

package exec

import (
	"os"

	bolt "go.etcd.io/bbolt"
	"go.etcd.io/bbolt/verifh/decode"
)

// accounting compares bbolt's own view of the pages with D's.
func (r *Runner) accounting(what string, res *decode.Result) {
	unreach := res.Unreachable()
	st := r.DB.VerifFreelist()
	if st != nil {
		// exact: free ∪ pending == unreachable pages of the newest version
		have := map[uint64]int{}
		for _, id := range st.Free {
			have[uint64(id)]++
		}
		npend := 0
		for _, l := range st.Pending {
			for _, p := range l {
				have[uint64(p.ID)]++
				npend++
			}
		}
		for id, n := range have {
			if n > 1 {
				r.fail("alloc:dup", "%s: page %d appears %d times in the allocator's free+pending sets", what, id, n)
			}
		}
		want := map[uint64]bool{}
		for _, id := range unreach {
			want[id] = true
			if have[id] == 0 {
				r.fail("alloc:leak", "%s: page %d is unreachable in the file but neither free nor pending in the allocator", what, id)
				break
			}
		}
		for id := range have {
			if !want[id] {
				u := res.Use[id]
				r.fail("alloc:free-and-used", "%s: page %d is free/pending in the allocator but in use as %s", what, id, u.Kind)
				break
			}
		}
		if r.Mon.Accounting && !r.statsFresh {
			// statistics other than FreePageN are only refreshed when a write transaction closes
			if s := r.DB.Stats(); s.FreePageN != len(st.Free) {
				r.fail("stats", "%s: Stats FreePageN=%d, allocator has %d free", what, s.FreePageN, len(st.Free))
			}
		} else if r.Mon.Accounting {
			s := r.DB.Stats()
			if s.FreePageN != len(st.Free) || s.PendingPageN != npend {
				r.fail("stats", "%s: Stats FreePageN=%d PendingPageN=%d, allocator has %d free %d pending", what, s.FreePageN, s.PendingPageN, len(st.Free), npend)
			}
			if s.FreeAlloc != (len(st.Free)+npend)*res.PageSize {
				r.fail("stats", "%s: Stats FreeAlloc=%d, want %d", what, s.FreeAlloc, (len(st.Free)+npend)*res.PageSize)
			}
			if s.FreePageN+s.PendingPageN != len(unreach) {
				r.fail("stats", "%s: Stats free+pending=%d, D counts %d unreachable pages", what, s.FreePageN+s.PendingPageN, len(unreach))
			}
		}
	}
	if r.Mon.Accounting && st != nil {
		// Tx.Page(id).Type for every id agrees with D
		_ = r.DB.View(func(tx *bolt.Tx) error {
			free := map[uint64]bool{}
			for _, id := range unreach {
				free[id] = true
			}
			for id := uint64(0); id < res.Meta.Pgid; id++ {
				pi, err := tx.Page(int(id))
				if err != nil || pi == nil {
					r.fail("txpage", "%s: Tx.Page(%d) = %v, %v", what, id, pi, err)
					return nil
				}
				u, used := res.Use[id]
				switch {
				case used && u.First == id:
					if pi.Type != u.Kind {
						r.fail("txpage", "%s: Tx.Page(%d).Type=%s, D says %s", what, id, pi.Type, u.Kind)
						return nil
					}
				case !used:
					if pi.Type != "free" {
						r.fail("txpage", "%s: Tx.Page(%d).Type=%s, D says unreachable (free)", what, id, pi.Type)
						return nil
					}
				}
			}
			if pi, _ := tx.Page(int(res.Meta.Pgid)); pi != nil {
				r.fail("txpage", "%s: Tx.Page(hwm) is not nil", what)
			}
			if tx.Size() != int64(res.Meta.Pgid)*int64(res.PageSize) {
				r.fail("txsize", "%s: Tx.Size()=%d, hwm*pagesize=%d", what, tx.Size(), int64(res.Meta.Pgid)*int64(res.PageSize))
			}
			return nil
		})
		if fi, err := os.Stat(r.Path); err == nil && fi.Size() < int64(res.Meta.Pgid)*int64(res.PageSize) {
			r.fail("short-file", "%s: file length %d < hwm %d * %d", what, fi.Size(), res.Meta.Pgid, res.PageSize)
		}
	}
}
