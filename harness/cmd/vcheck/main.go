// vcheck is the single entry point of the verification harness:
//
//	vcheck <PROPERTY> quick|thorough [--replay file]
//	vcheck child <mode> <argfile>        (internal: batch child process)
package main

import (
	"fmt"
	"os"
	"os/signal"
	"runtime/debug"
	"sort"
	"syscall"

	"go.etcd.io/bbolt/verifh/drivers"
)

func main() {
	if len(os.Args) >= 4 && os.Args[1] == "child" {
		// a corrupted snapshot can send a reader into unbounded recursion: die at 128 MiB of stack, not at the default 1 GiB
		debug.SetMaxStack(128 << 20)
		fn := drivers.ChildModes[os.Args[2]]
		if fn == nil {
			fmt.Fprintln(os.Stderr, "unknown child mode", os.Args[2])
			os.Exit(3)
		}
		fn(os.Args[3])
		return
	}
	if len(os.Args) < 2 {
		usage()
	}
	prop := os.Args[1]
	tier := os.Getenv("VERIF_TIER")
	replay := ""
	for i := 2; i < len(os.Args); i++ {
		switch os.Args[i] {
		case "quick", "thorough":
			tier = os.Args[i]
		case "--replay":
			if i+1 < len(os.Args) {
				replay = os.Args[i+1]
				i++
			}
		}
	}
	if tier == "" {
		tier = "quick"
	}
	d := drivers.Drivers[prop]
	if d == nil {
		usage()
	}
	c := drivers.NewCtx(prop, tier)
	c.Replay = replay
	sig := make(chan os.Signal, 1)
	signal.Notify(sig, syscall.SIGTERM, syscall.SIGINT)
	go func() {
		<-sig
		c.Abort()
		os.Exit(130)
	}()
	code := d(c)
	c.Close()
	os.Exit(code)
}

func usage() {
	var ps []string
	for k := range drivers.Drivers {
		ps = append(ps, k)
	}
	sort.Strings(ps)
	fmt.Fprintln(os.Stderr, "usage: vcheck <property> quick|thorough [--replay file]; properties:", ps)
	os.Exit(2)
}
