// goldengen writes the golden corpus of C12. It is built WITHOUT the verif tag
// against a worktree of the pinned commit (see tools/mkgolden.sh), so the files
// are produced by the pinned build through the public API only.
package main

import (
	"bytes"
	"compress/gzip"
	"crypto/sha256"
	"encoding/json"
	"fmt"
	"os"
	"path/filepath"

	bolt "go.etcd.io/bbolt"
	"go.etcd.io/bbolt/verifh/exec"
	"go.etcd.io/bbolt/verifh/gen"
)

type entry struct {
	Name     string   `json:"name"`
	PageSize int      `json:"page_size"`
	Opts     string   `json:"opts"`
	Size     int      `json:"size"`
	SHA256   string   `json:"sha256"`
	DumpSHA  string   `json:"dump_sha256"`
	DumpLen  int      `json:"dump_lines"`
	Dump     []string `json:"dump,omitempty"` // kept for small files
	What     string   `json:"what"`
}

func gz(b []byte) []byte {
	var buf bytes.Buffer
	w, _ := gzip.NewWriterLevel(&buf, gzip.BestCompression)
	w.Write(b)
	w.Close()
	return buf.Bytes()
}

func dumpSHA(d []string) string {
	h := sha256.New()
	for _, l := range d {
		h.Write([]byte(l))
		h.Write([]byte{'\n'})
	}
	return fmt.Sprintf("%x", h.Sum(nil))
}

func main() {
	out := os.Args[1]
	tmp, _ := os.MkdirTemp("", "golden")
	defer os.RemoveAll(tmp)
	var entries []entry
	add := func(name, what string, ps int, opts string, path string, dump []string) {
		b, err := os.ReadFile(path)
		if err != nil {
			panic(err)
		}
		e := entry{Name: name, PageSize: ps, Opts: opts, Size: len(b), SHA256: fmt.Sprintf("%x", sha256.Sum256(b)), DumpSHA: dumpSHA(dump), DumpLen: len(dump), What: what}
		if len(dump) <= 400 {
			e.Dump = dump
		}
		if err := os.WriteFile(filepath.Join(out, name+".db.gz"), gz(b), 0644); err != nil {
			panic(err)
		}
		entries = append(entries, e)
		fmt.Printf("%s: %d bytes, %d dump lines\n", name, len(b), len(dump))
	}
	profiles := []string{"mixed", "buckets", "structural", "big", "overwrite"}
	n := 0
	for _, ps := range []int{1024, 4096, 8192, 16384} {
		for pi, prof := range profiles {
			for variant := 0; variant < 2; variant++ {
				cfg := gen.Config{Profile: prof, PageSize: ps, Txs: 8, OpsPerTx: 22, KeySpace: 150, Rollback: 0.1, NoBigKeys: prof != "big"}
				if prof == "structural" || ps >= 8192 {
					cfg.Txs = 6
					cfg.OpsPerTx = 12
				}
				cfg.Opts.Freelist = []string{"array", "hashmap"}[variant]
				cfg.Opts.NoFreelistSync = variant == 1 && pi%2 == 0
				var p *gen.Program
				var dump []string
				path := filepath.Join(tmp, fmt.Sprintf("g%d.db", n))
				for try := 0; ; try++ {
					if try > 2000 {
						panic("no consistent program found")
					}
					p = gen.Generate(20260923, n+1000*try, cfg)
					// reads are irrelevant for producing a file, and the pinned build's cursor can hang
					// in dirty transactions (a known defect); keep only the mutating steps
					var steps []gen.Step
					for _, st := range p.Steps {
						switch st.Op {
						case "cursor", "forEach", "dump", "get", "seq", "stats", "bucketNil", "probeClosed", "move":
						default:
							steps = append(steps, st)
						}
					}
					p.Steps = steps
					os.Remove(path)
					// no model oracle here: the pinned build has known API defects; the expectation
					// recorded is what the pinned build itself reads back, and the file must pass its check.
					r := exec.NewRunner(path, exec.Monitors{})
					if v := r.Run(p); len(v) > 0 {
						continue
					}
					db, err := bolt.Open(path, 0600, &bolt.Options{ReadOnly: true})
					if err != nil {
						panic(err)
					}
					var bad []string
					_ = db.View(func(tx *bolt.Tx) error {
						dump, bad = exec.DumpTx(tx, true)
						bad = append(bad, exec.CheckTx(tx)...)
						return nil
					})
					db.Close()
					if len(bad) == 0 && len(dump) >= 20 {
						break
					}
				}
				name := fmt.Sprintf("g%02d-%s-ps%d-%s", n, prof, ps, cfg.Opts.Freelist)
				if cfg.Opts.NoFreelistSync {
					name += "-nofreelist"
				}
				add(name, "program "+p.Summary(), ps, cfg.Opts.String(), path, dump)
				n++
			}
		}
	}
	// a freelist with more than 65535 ids (0xFFFF count convention)
	{
		path := filepath.Join(tmp, "ffff.db")
		db, err := bolt.Open(path, 0600, &bolt.Options{PageSize: 1024, NoSync: true})
		if err != nil {
			panic(err)
		}
		val := bytes.Repeat([]byte{'v'}, 700)
		for batch := 0; batch < 7; batch++ {
			err = db.Update(func(tx *bolt.Tx) error {
				b, _ := tx.CreateBucketIfNotExists([]byte("bulk"))
				for i := 0; i < 10000; i++ {
					if err := b.Put([]byte(fmt.Sprintf("key%07d", batch*10000+i)), val); err != nil {
						return err
					}
				}
				return nil
			})
			if err != nil {
				panic(err)
			}
		}
		_ = db.Update(func(tx *bolt.Tx) error {
			k, _ := tx.CreateBucket([]byte("keep"))
			_ = k.Put([]byte("a"), []byte("1"))
			_ = k.SetSequence(42)
			return tx.DeleteBucket([]byte("bulk"))
		})
		_ = db.Update(func(tx *bolt.Tx) error { return tx.Bucket([]byte("keep")).Put([]byte("b"), []byte("2")) })
		var dump []string
		_ = db.View(func(tx *bolt.Tx) error { dump, _ = exec.DumpTx(tx, true); return nil })
		st := db.Stats()
		db.Close()
		add("g99-freelist-0xFFFF-ps1024", fmt.Sprintf("70000 one-page keys deleted at once: %d free + %d pending ids on the freelist page", st.FreePageN, st.PendingPageN), 1024, "ps=1024", path, dump)
	}
	b, _ := json.MarshalIndent(map[string]any{"pinned_commit": os.Getenv("PINNED"), "entries": entries}, "", " ")
	if err := os.WriteFile(filepath.Join(out, "manifest.json"), b, 0644); err != nil {
		panic(err)
	}
}
