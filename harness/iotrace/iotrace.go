// Package iotrace installs the handler table of bbolt's `verif` hooks: it
// records the I/O a DB issues, injects faults, widens interleavings at the
// yield points and feeds online monitors.
package iotrace

import (
	"crypto/sha256"
	"errors"
	"fmt"
	"math/rand"
	"os"
	"runtime"
	"sync"
	"sync/atomic"
	"time"

	bolt "go.etcd.io/bbolt"
)

// Event is one recorded I/O operation (or a marker written by a driver).
type Event struct {
	Seq    int
	Op     string // write, fdatasync, truncate, fsync, mmap, or marker:<name>
	Off    int64
	Size   int64
	Data   []byte // copy of the bytes for writes (if KeepData)
	Err    string // non-empty if the operation failed
	Inject bool   // the failure was injected
	Path   string
	Note   string
}

func (e Event) String() string {
	s := fmt.Sprintf("#%d %s off=%d size=%d", e.Seq, e.Op, e.Off, e.Size)
	if e.Err != "" {
		s += " err=" + e.Err
	}
	if e.Note != "" {
		s += " " + e.Note
	}
	return s
}

// MetaBytes is the number of meaningful bytes at the start of a meta page (page header + meta structure).
const MetaBytes = 80

// ErrInjected is the error returned by injected faults.
var ErrInjected = errors.New("verif: injected I/O error")

// Fault describes one fault to inject: the K-th (1-based) hook event on Path
// (counted from the moment the fault is armed) fails once.
type Fault struct {
	K       int
	Partial int // for writes: write this many bytes first (0 = nothing written)
}

// Tracer is the process-wide hook handler.
type Tracer struct {
	mu          sync.Mutex
	Path        string // only events of this path are recorded/injected ("" = all)
	KeepData    bool
	BarrierHash bool // record a hash of the real file in the Note of every successful sync event
	Events      []Event
	seq         int
	counting    bool
	count       int // events seen since arming
	fault       *Fault
	Fired       *Event // the event the fault hit
	armPos      int
	markPos     int
	markCount   int
	MetaLimit   int64 // offsets below this are meta pages (2 * page size)

	// OnAfter is called (with the tracer unlocked) after every successfully
	// or unsuccessfully performed operation; online monitors hang here.
	OnAfter func(ev *bolt.VerifIOEvent, err error)
	// OnBefore is called before every operation (after fault decision).
	OnBefore func(ev *bolt.VerifIOEvent)

	yieldSeed   atomic.Int64
	yieldOn     atomic.Bool
	YieldCounts sync.Map // point -> *atomic.Int64
	CursorLimit int64
}

// New creates a tracer and installs it.
func New(path string) *Tracer {
	t := &Tracer{Path: path}
	t.Install()
	return t
}

// Install (re)installs the hooks of this tracer.
func (t *Tracer) Install() {
	bolt.SetVerifHooks(&bolt.VerifHooks{
		Before:       t.before,
		After:        t.after,
		Yield:        t.yield,
		CursorBudget: t.CursorLimit,
	})
}

// Uninstall removes all hooks.
func Uninstall() { bolt.SetVerifHooks(nil) }

func (t *Tracer) match(ev *bolt.VerifIOEvent) bool {
	return t.Path == "" || ev.Path == t.Path
}

func (t *Tracer) before(ev *bolt.VerifIOEvent) error {
	if !t.match(ev) {
		return nil
	}
	t.mu.Lock()
	var inj error
	if t.counting {
		t.count++
		if t.fault != nil && t.count == t.fault.K {
			inj = ErrInjected
			if ev.Op == "write" && t.fault.Partial > 0 {
				ev.Partial = t.fault.Partial
				if ev.Partial > len(ev.Data) {
					ev.Partial = len(ev.Data)
				}
			}
			t.seq++
			e := Event{Seq: t.seq, Op: ev.Op, Off: ev.Off, Size: ev.Size, Err: inj.Error(), Inject: true, Path: ev.Path}
			if ev.Partial > 0 {
				e.Note = fmt.Sprintf("partial=%d", ev.Partial)
				if t.KeepData {
					e.Data = append([]byte(nil), ev.Data[:ev.Partial]...)
				}
				e.Size = int64(ev.Partial)
			} else {
				e.Size = 0
			}
			t.Events = append(t.Events, e)
			t.Fired = &t.Events[len(t.Events)-1]
			t.fault = nil
		}
	}
	ob := t.OnBefore
	t.mu.Unlock()
	if ob != nil {
		ob(ev)
	}
	return inj
}

func (t *Tracer) after(ev *bolt.VerifIOEvent, err error) {
	if !t.match(ev) {
		return
	}
	t.mu.Lock()
	if !(err != nil && errors.Is(err, ErrInjected)) {
		// injected failures were logged by before(); partial writes too
		t.seq++
		e := Event{Seq: t.seq, Op: ev.Op, Off: ev.Off, Size: ev.Size, Path: ev.Path}
		if err != nil {
			e.Err = err.Error()
		}
		if t.KeepData && ev.Op == "write" {
			e.Data = append([]byte(nil), ev.Data...)
		}
		if t.BarrierHash && err == nil && (ev.Op == "fdatasync" || ev.Op == "fsync") {
			if b, rerr := os.ReadFile(ev.Path); rerr == nil {
				h := sha256.Sum256(b)
				e.Note = fmt.Sprintf("sha=%x len=%d", h[:8], len(b))
			}
		}
		t.Events = append(t.Events, e)
	}
	oa := t.OnAfter
	t.mu.Unlock()
	if oa != nil {
		oa(ev, err)
	}
}

// Marker appends a driver-defined marker event.
func (t *Tracer) Marker(name string, note string) {
	t.mu.Lock()
	t.seq++
	t.Events = append(t.Events, Event{Seq: t.seq, Op: "marker:" + name, Note: note})
	t.mu.Unlock()
}

// Arm starts counting events and (optionally) arms a fault.
func (t *Tracer) Arm(f *Fault) {
	t.mu.Lock()
	t.counting = true
	t.count = 0
	t.fault = f
	t.Fired = nil
	t.mu.Unlock()
}

// Disarm stops counting; returns the number of events counted.
func (t *Tracer) Disarm() int {
	t.mu.Lock()
	defer t.mu.Unlock()
	t.counting = false
	t.fault = nil
	return t.count
}

// Count returns the events counted since Arm.
func (t *Tracer) Count() int {
	t.mu.Lock()
	defer t.mu.Unlock()
	return t.count
}

// Snapshot returns a copy of the event log.
func (t *Tracer) Snapshot() []Event {
	t.mu.Lock()
	defer t.mu.Unlock()
	return append([]Event(nil), t.Events...)
}

// Reset clears the event log.
func (t *Tracer) Reset() {
	t.mu.Lock()
	t.Events = nil
	t.mu.Unlock()
}

// Len returns the number of logged events.
func (t *Tracer) Len() int {
	t.mu.Lock()
	defer t.mu.Unlock()
	return len(t.Events)
}

// EnableYields turns the yield points into seeded scheduling noise.
func (t *Tracer) EnableYields(seed int64) {
	t.yieldSeed.Store(seed)
	t.yieldOn.Store(true)
}

func (t *Tracer) DisableYields() { t.yieldOn.Store(false) }

func (t *Tracer) yield(point string) {
	c, _ := t.YieldCounts.LoadOrStore(point, new(atomic.Int64))
	n := c.(*atomic.Int64).Add(1)
	if !t.yieldOn.Load() {
		return
	}
	// cheap deterministic-per-(seed,point,n) decision; the schedule itself is
	// of course not deterministic, only the noise pattern is.
	h := uint64(t.yieldSeed.Load())*0x9E3779B97F4A7C15 + uint64(n)*0xBF58476D1CE4E5B9
	for i := 0; i < len(point); i++ {
		h = (h ^ uint64(point[i])) * 0x100000001B3
	}
	h ^= h >> 29
	switch h % 8 {
	case 0, 1, 2:
		runtime.Gosched()
	case 3:
		time.Sleep(time.Duration(1+h%50) * time.Microsecond)
	case 4:
		for i := 0; i < 3; i++ {
			runtime.Gosched()
		}
	}
}

// YieldStats returns how often each yield point was passed.
func (t *Tracer) YieldStats() map[string]int64 {
	out := map[string]int64{}
	t.YieldCounts.Range(func(k, v any) bool {
		out[k.(string)] = v.(*atomic.Int64).Load()
		return true
	})
	return out
}

// Rand returns a deterministic PRNG for (seed, stream).
func Rand(seed int64, stream int64) *rand.Rand {
	return rand.New(rand.NewSource(seed*1000003 + stream*7919 + 17))
}

// ArmFault / DisarmFault implement exec.Injector.
func (t *Tracer) ArmFault(k int, partial int) {
	t.mu.Lock()
	t.armPos = len(t.Events)
	t.mu.Unlock()
	t.Arm(&Fault{K: k, Partial: partial})
}

func (t *Tracer) DisarmFault() (counted int, firedOp string, firedOff int64, metaWritten bool) {
	t.mu.Lock()
	defer t.mu.Unlock()
	counted = t.count
	t.counting = false
	t.fault = nil
	if t.Fired != nil {
		firedOp, firedOff = t.Fired.Op, t.Fired.Off
	}
	// was a complete meta page write performed since arming?
	for _, e := range t.Events[t.armPos:] {
		if e.Op == "write" && t.MetaLimit > 0 && e.Off < t.MetaLimit && (e.Err == "" || e.Size >= MetaBytes) {
			// complete, or failed only after the meaningful bytes of the meta page had reached the file
			metaWritten = true
		}
	}
	return
}

// Mark / SinceMark implement the whole-program fault mode of exec.Injector.
func (t *Tracer) Mark() {
	t.mu.Lock()
	t.markPos = len(t.Events)
	t.markCount = t.count
	t.mu.Unlock()
}

func (t *Tracer) SinceMark() (counted int, firedOp string, firedOff int64, metaWritten bool) {
	t.mu.Lock()
	defer t.mu.Unlock()
	counted = t.count - t.markCount
	for _, e := range t.Events[t.markPos:] {
		if e.Inject {
			firedOp, firedOff = e.Op, e.Off
		}
		if e.Op == "write" && t.MetaLimit > 0 && e.Off < t.MetaLimit && (e.Err == "" && firedOp == "" || e.Inject && e.Size >= MetaBytes) {
			metaWritten = true
		}
	}
	return
}
