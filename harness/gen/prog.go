// Package gen defines programs over the public bbolt API and their seeded
// generators. A program is plain data (JSON): it is written to disk before it
// is run and is its own replay file.
package gen

import (
	"fmt"

	"go.etcd.io/bbolt/verifh/model"
)

// OpenOpts are the options of one Open call (JSON-able mirror of bolt.Options).
type OpenOpts struct {
	PageSize        int    `json:"ps,omitempty"`
	Freelist        string `json:"fl,omitempty"` // "array" | "hashmap"
	NoFreelistSync  bool   `json:"nfs,omitempty"`
	NoGrowSync      bool   `json:"ngs,omitempty"`
	InitialMmapSize int    `json:"mmap,omitempty"`
	Mlock           bool   `json:"mlock,omitempty"`
	PreLoadFreelist bool   `json:"preload,omitempty"`
	ReadOnly        bool   `json:"ro,omitempty"`
	StrictMode      bool   `json:"strict,omitempty"`
	MaxSize         int    `json:"max,omitempty"`
	AllocSize       int    `json:"alloc,omitempty"`
	NoSync          bool   `json:"nosync,omitempty"`
}

func (o OpenOpts) String() string {
	return fmt.Sprintf("ps=%d fl=%s nfs=%v ngs=%v mmap=%d mlock=%v preload=%v ro=%v strict=%v max=%d alloc=%d",
		o.PageSize, o.Freelist, o.NoFreelistSync, o.NoGrowSync, o.InitialMmapSize, o.Mlock, o.PreLoadFreelist, o.ReadOnly, o.StrictMode, o.MaxSize, o.AllocSize)
}

// K describes a key: deterministic bytes from (ID, Len).
type K struct {
	ID  int `json:"i"`
	Len int `json:"l,omitempty"` // 0 = natural length
}

var specialKeys = []string{
	"\x00", "\xff", "\x00\x00", "\xff\xff\xff", "k", "k0", "k00", "k0000\x00", "k9999\xff", "j", "l", "K", "~", "\x01k", "k\x00",
}

// Bytes renders the key. ID < 0 selects a special (binary / prefix) key;
// Len == -1 means the empty key.
func (k K) Bytes() []byte {
	if k.Len == -1 {
		return []byte{}
	}
	if k.ID < 0 {
		return []byte(specialKeys[(-k.ID-1)%len(specialKeys)])
	}
	base := []byte(fmt.Sprintf("k%04d", k.ID))
	if k.Len <= 0 || k.Len == len(base) {
		return base
	}
	if k.Len < len(base) {
		return base[len(base)-k.Len:]
	}
	out := make([]byte, k.Len)
	copy(out, base)
	for i := len(base); i < k.Len; i++ {
		out[i] = byte((k.ID*31+i*7)%251 + 1)
	}
	return out
}

// V describes a value: deterministic bytes from (Seed, Len); Nil passes a nil slice.
type V struct {
	Seed uint32 `json:"s,omitempty"`
	Len  int    `json:"l,omitempty"`
	Nil  bool   `json:"nil,omitempty"`
}

func (v V) Bytes() []byte {
	if v.Nil {
		return nil
	}
	out := make([]byte, v.Len)
	x := v.Seed*2654435761 + 1
	for i := range out {
		x ^= x << 13
		x ^= x >> 17
		x ^= x << 5
		out[i] = byte(x)
	}
	return out
}

var bucketNames = []string{"b0", "b1", "b2", "b3", "b4", "b5", "\x00bin", "zz\xff", "k0003", "k0010"}

// BucketName renders bucket name n; n == -1 is the empty name; 100 <= n < 1000 is a long name; n >= 1000 a numbered name.
func BucketName(n int) string {
	if n == -1 {
		return ""
	}
	if n >= 1000 {
		return fmt.Sprintf("nb%05d", n) // numbered names: hundreds of sibling buckets
	}
	if n >= 100 {
		b := make([]byte, n)
		for i := range b {
			b[i] = byte('A' + (n+i)%26)
		}
		return string(b)
	}
	return bucketNames[n%len(bucketNames)]
}

// Path renders a bucket path.
func Path(p []int) []string {
	out := make([]string, len(p))
	for i, n := range p {
		out[i] = BucketName(n)
	}
	return out
}

// CurCall is one cursor call: F(irst) L(ast) N(ext) P(rev) S(eek) D(elete at Seek target).
type CurCall struct {
	C string `json:"c"`
	K *K     `json:"k,omitempty"`
}

// Step is one program step.
type Step struct {
	Op   string    `json:"op"`
	Opts *OpenOpts `json:"opts,omitempty"`
	P    []int     `json:"p,omitempty"`   // bucket path
	N    int       `json:"n,omitempty"`   // bucket name index
	D    []int     `json:"d,omitempty"`   // destination path (move)
	K    *K        `json:"k,omitempty"`   // key
	K2   *K        `json:"k2,omitempty"`  // range end
	V    *V        `json:"v,omitempty"`   // value
	U    uint64    `json:"u,omitempty"`   // sequence value
	F    float64   `json:"f,omitempty"`   // fill percent
	Cur  []CurCall `json:"cur,omitempty"` // cursor calls
	W    bool      `json:"w,omitempty"`   // begin: writable
	How  string    `json:"how,omitempty"` // variants
}

// Program is a complete case.
type Program struct {
	Name  string `json:"name"`
	Seed  int64  `json:"seed"`
	Case  int    `json:"case"`
	Steps []Step `json:"steps"`
}

// Summary is a one-line description used in evidence samples.
func (p *Program) Summary() string {
	counts := map[string]int{}
	for _, s := range p.Steps {
		counts[s.Op]++
	}
	return fmt.Sprintf("%s seed=%d case=%d steps=%d %v", p.Name, p.Seed, p.Case, len(p.Steps), counts)
}

var _ = model.OK
