package gen

import (
	"fmt"
	"math/rand"

	"go.etcd.io/bbolt/verifh/model"
)

// Config steers a generator. All case lists are fixed-length functions of
// (seed, case index); nothing here depends on time.
type Config struct {
	Profile     string // mixed | structural | buckets | cursor | big | overwrite
	Txs         int
	OpsPerTx    int
	KeySpace    int
	PageSize    int
	Opts        OpenOpts
	Reopen      float64                     // probability of a reopen after a transaction
	Rollback    float64                     // probability that a write transaction rolls back
	OptSched    func(r *rand.Rand) OpenOpts // option schedule for reopens (C13); nil = same options
	ROProbe     float64                     // probability of a read-only-transaction probe block
	MaxDepth    int                         // bucket nesting
	NoBigKeys   bool
	Managed     float64 // probability that a write transaction runs inside DB.Update (body returns nil, an error, or panics)
	HeldReaders float64 // probability (per write transaction) that a read transaction is opened and kept across the following ones; needs a large initial map (set by Generate)
	FailCommit  float64 // probability that the commit of an (unmanaged) write transaction gets one injected I/O failure
}

func (c *Config) defaults() {
	if c.Txs == 0 {
		c.Txs = 12
	}
	if c.OpsPerTx == 0 {
		c.OpsPerTx = 25
	}
	if c.KeySpace == 0 {
		c.KeySpace = 120
	}
	if c.PageSize == 0 {
		c.PageSize = 4096
	}
	if c.MaxDepth == 0 {
		c.MaxDepth = 3
	}
}

type genState struct {
	bulkDone bool
	r        *rand.Rand
	cfg      Config
	sim      *Sim
	p        *Program
}

func (g *genState) emit(st Step) Exp {
	g.p.Steps = append(g.p.Steps, st)
	return g.sim.Apply(&g.p.Steps[len(g.p.Steps)-1])
}

func (g *genState) key() *K {
	r := g.r
	if g.cfg.Profile == "bigkeys" && r.Intn(3) == 0 {
		// keys of half a page to a page and a half: leaves that begin with such keys give branch pages with
		// overflow pages, and leaf elements whose key alone overflows
		ps := g.cfg.PageSize
		l := ps/2 + r.Intn(ps)
		if l > 32768 {
			l = 32768
		}
		return &K{ID: r.Intn(g.cfg.KeySpace), Len: l}
	}
	switch x := r.Intn(40); {
	case x == 0:
		return &K{ID: -(1 + r.Intn(len(specialKeys)))}
	case x == 1 && !g.cfg.NoBigKeys:
		// long keys, up to the maximum and around page size
		ls := []int{g.cfg.PageSize / 4, g.cfg.PageSize - 40, g.cfg.PageSize, g.cfg.PageSize + 1, 3 * g.cfg.PageSize, 32768, 32767}
		return &K{ID: r.Intn(g.cfg.KeySpace), Len: ls[r.Intn(len(ls))]}
	case x == 2:
		return &K{ID: r.Intn(g.cfg.KeySpace), Len: 1 + r.Intn(40)}
	case x == 3:
		// keys that clash with bucket names "k0003"/"k0010"
		return &K{ID: []int{3, 10}[r.Intn(2)]}
	}
	return &K{ID: r.Intn(g.cfg.KeySpace)}
}

func (g *genState) val() *V {
	r := g.r
	ps := g.cfg.PageSize
	switch x := r.Intn(24); {
	case x == 0:
		return &V{Nil: true}
	case x == 1:
		return &V{Len: 0}
	case x == 2:
		return &V{Seed: r.Uint32(), Len: ps + r.Intn(3*ps)} // overflow pages
	case x == 3:
		return &V{Seed: r.Uint32(), Len: ps/2 + r.Intn(ps)}
	case x == 4 && g.cfg.Profile == "big":
		return &V{Seed: r.Uint32(), Len: 8*ps + r.Intn(40*ps)}
	case x < 8:
		return &V{Seed: r.Uint32(), Len: ps / 8 * (1 + r.Intn(3))}
	}
	return &V{Seed: r.Uint32(), Len: r.Intn(64)}
}

func (g *genState) anyPath() []int {
	// pick an existing bucket path (indices); nil if there is none
	var out [][]int
	var rec func(b *model.Bucket, p []int)
	rec = func(b *model.Bucket, p []int) {
		for i := range bucketNames {
			if s, ok := b.Sub[bucketNames[i]]; ok {
				np := append(append([]int{}, p...), i)
				out = append(out, np)
				rec(s, np)
			}
		}
	}
	rec(g.sim.Cur, nil)
	if len(out) == 0 {
		return nil
	}
	return out[g.r.Intn(len(out))]
}

// weights per profile: create, delBucket, move, put, del, delRange, seq, cursor, get, forEach, probe
var weights = map[string][11]int{
	"mixed":      {6, 3, 4, 40, 12, 4, 5, 8, 8, 3, 3},
	"structural": {2, 1, 1, 50, 10, 16, 1, 6, 4, 2, 1},
	"buckets":    {16, 9, 12, 22, 6, 5, 8, 5, 4, 3, 4},
	"cursor":     {3, 1, 1, 30, 10, 20, 0, 30, 2, 2, 0},
	"big":        {4, 2, 2, 45, 12, 5, 2, 5, 8, 2, 2},
	"overwrite":  {1, 0, 0, 70, 8, 4, 1, 2, 4, 1, 0},
	"bigkeys":    {4, 1, 2, 55, 12, 6, 1, 6, 8, 2, 1},
}

func (g *genState) pick() int {
	w := weights[g.cfg.Profile]
	tot := 0
	for _, x := range w {
		tot += x
	}
	x := g.r.Intn(tot)
	for i, v := range w {
		if x < v {
			return i
		}
		x -= v
	}
	return 3
}

func (g *genState) cursorCalls(n int) []CurCall {
	var calls []CurCall
	positioned := false
	for i := 0; i < n; i++ {
		x := g.r.Intn(10)
		switch {
		case !positioned || x == 0:
			switch g.r.Intn(3) {
			case 0:
				calls = append(calls, CurCall{C: "F"})
			case 1:
				calls = append(calls, CurCall{C: "L"})
			default:
				calls = append(calls, CurCall{C: "S", K: g.seekKey()})
			}
			positioned = true
		case x == 1:
			calls = append(calls, CurCall{C: "S", K: g.seekKey()})
		case x < 6:
			calls = append(calls, CurCall{C: "N"})
		default:
			calls = append(calls, CurCall{C: "P"})
		}
	}
	return calls
}

func (g *genState) seekKey() *K {
	switch g.r.Intn(8) {
	case 0:
		return &K{ID: -(1 + g.r.Intn(len(specialKeys)))} // before-first / after-last / prefixes
	case 1:
		return &K{ID: g.cfg.KeySpace + g.r.Intn(5)} // beyond the key space
	case 2:
		return &K{ID: g.r.Intn(g.cfg.KeySpace), Len: 3} // short suffix keys sort elsewhere
	}
	return &K{ID: g.r.Intn(g.cfg.KeySpace)}
}

func (g *genState) fullScan(p []int) {
	// complete forward and backward scans, always among the cursor checks
	b := g.sim.Cur.At(Path(p))
	if b == nil {
		return // the bucket does not exist in this transaction's view
	}
	n := len(b.Keys())
	fw := []CurCall{{C: "F"}}
	bw := []CurCall{{C: "L"}}
	for i := 0; i < n+1; i++ {
		fw = append(fw, CurCall{C: "N"})
		bw = append(bw, CurCall{C: "P"})
	}
	// after running off: step back / forward once more (position must have stayed)
	fw = append(fw, CurCall{C: "P"}, CurCall{C: "N"}, CurCall{C: "N"})
	bw = append(bw, CurCall{C: "N"}, CurCall{C: "P"}, CurCall{C: "P"})
	g.emit(Step{Op: "cursor", P: p, Cur: fw})
	g.emit(Step{Op: "cursor", P: p, Cur: bw})
}

func (g *genState) oneOp() {
	r := g.r
	p := g.anyPath()
	kind := g.pick()
	if p == nil && kind != 0 {
		kind = 0
	}
	switch kind {
	case 0: // create bucket (at root or nested)
		var parent []int
		if p != nil && r.Intn(3) > 0 && len(p) < g.cfg.MaxDepth {
			parent = p
		}
		n := r.Intn(6)
		if r.Intn(12) == 0 {
			n = 6 + r.Intn(4) // binary names and names clashing with keys
		}
		if r.Intn(60) == 0 {
			n = 100 + r.Intn(400) // long name
		}
		op := "create"
		if r.Intn(3) == 0 {
			op = "createIf"
		}
		g.emit(Step{Op: op, P: parent, N: n})
	case 1: // delete bucket
		g.emit(Step{Op: "delBucket", P: p[:len(p)-1], N: p[len(p)-1]})
	case 2: // move bucket
		var dst []int
		if r.Intn(3) > 0 {
			dst = g.anyPath()
		}
		g.emit(Step{Op: "move", P: p[:len(p)-1], N: p[len(p)-1], D: dst})
	case 3: // put
		if g.cfg.Profile == "structural" && g.cfg.PageSize <= 4096 && !g.bulkDone && r.Intn(12) == 0 {
			// once per program: enough ascending long keys for a three-level tree at this page size
			// (about pageSize/130 keys per leaf and pageSize/120 children per branch)
			g.bulkDone = true
			ps := g.cfg.PageSize
			n := ps*ps/15600*13/10 + 40
			for i := 0; i < n; i++ {
				g.emit(Step{Op: "put", P: p, K: &K{ID: i, Len: 100}, V: &V{Seed: r.Uint32(), Len: 12}})
			}
			return
		}
		if g.cfg.Profile == "structural" && r.Intn(6) == 0 {
			// a run of ascending inserts: fast way to splits
			start := r.Intn(g.cfg.KeySpace)
			n := 10 + r.Intn(60)
			for i := 0; i < n; i++ {
				g.emit(Step{Op: "put", P: p, K: &K{ID: (start + i) % g.cfg.KeySpace}, V: &V{Seed: r.Uint32(), Len: g.cfg.PageSize / 16 * (1 + r.Intn(3))}})
			}
			return
		}
		g.emit(Step{Op: "put", P: p, K: g.key(), V: g.val()})
	case 4: // delete
		g.emit(Step{Op: "del", P: p, K: g.key()})
	case 5: // range delete: leaves emptied leaves at the front / middle / end / everywhere
		lo, hi := r.Intn(g.cfg.KeySpace), r.Intn(g.cfg.KeySpace)
		switch r.Intn(5) {
		case 0:
			lo = 0
		case 1:
			hi = g.cfg.KeySpace
		case 2:
			lo, hi = 0, g.cfg.KeySpace+10
		}
		if lo > hi {
			lo, hi = hi, lo
		}
		how := ""
		if r.Intn(3) == 0 {
			how = "cursor"
		}
		g.emit(Step{Op: "delRange", P: p, K: &K{ID: lo}, K2: &K{ID: hi, Len: 40}, How: how})
		if g.cfg.Profile == "cursor" || r.Intn(3) == 0 {
			g.fullScan(p)
		}
	case 6: // sequences
		switch r.Intn(4) {
		case 0:
			us := []uint64{0, 1, 1 << 32, 1<<63 - 1, 1<<64 - 2, 1<<64 - 1, r.Uint64()}
			g.emit(Step{Op: "setSeq", P: p, U: us[r.Intn(len(us))]})
		case 1:
			g.emit(Step{Op: "seq", P: p})
		default:
			g.emit(Step{Op: "nextSeq", P: p})
		}
	case 7: // cursor walk
		var cp []int = p
		if r.Intn(10) == 0 {
			cp = nil // root cursor
		}
		if r.Intn(4) == 0 {
			g.fullScan(cp)
		} else {
			g.emit(Step{Op: "cursor", P: cp, Cur: g.cursorCalls(1 + r.Intn(40))})
		}
		if r.Intn(8) == 0 && cp != nil {
			g.emit(Step{Op: "cursor", P: cp, Cur: []CurCall{{C: "D", K: g.seekKey()}, {C: "F"}, {C: "N"}}})
		}
	case 8:
		g.emit(Step{Op: "get", P: p, K: g.key()})
	case 9:
		g.emit(Step{Op: "forEach", P: p})
	case 10: // error probes; the state must not change
		switch r.Intn(7) {
		case 0:
			g.emit(Step{Op: "put", P: p, K: &K{Len: -1}, V: &V{Len: 3}})
		case 1:
			g.emit(Step{Op: "put", P: p, K: &K{ID: 1, Len: 32769}, V: &V{Len: 3}})
		case 2:
			g.emit(Step{Op: "create", P: p, N: -1})
		case 3:
			g.emit(Step{Op: "createIf", P: p, N: -1})
		case 4:
			g.emit(Step{Op: "delBucket", P: p, N: r.Intn(10)})
		case 5:
			g.emit(Step{Op: "bucketNil", P: append(append([]int{}, p...), r.Intn(10))})
		case 6:
			g.emit(Step{Op: "move", P: p, N: r.Intn(10), D: g.anyPath()})
		}
		g.emit(Step{Op: "dump"})
	}
}

// Generate builds case number caseNo of the list determined by seed and cfg.
func Generate(seed int64, caseNo int, cfg Config) *Program {
	cfg.defaults()
	r := rand.New(rand.NewSource(seed*1000003 + int64(caseNo)*7919 + 1))
	g := &genState{r: r, cfg: cfg, sim: NewSim(), p: &Program{Name: cfg.Profile, Seed: seed, Case: caseNo}}
	opts := cfg.Opts
	opts.PageSize = cfg.PageSize
	if cfg.HeldReaders > 0 {
		// a reader held by the goroutine that drives a remapping writer deadlocks by design: map once, generously
		opts.InitialMmapSize = 256 << 20
		opts.AllocSize = 64 << 10
		cfg.Opts = opts
	}
	nheld := 0
	g.emit(Step{Op: "open", Opts: &opts})
	for t := 0; t < cfg.Txs; t++ {
		managed := r.Float64() < cfg.Managed
		if managed {
			g.emit(Step{Op: "begin", W: true, How: "update"})
		} else {
			g.emit(Step{Op: "begin", W: true})
		}
		if r.Intn(4) == 0 {
			// set a fill percent for buckets touched in this transaction
			fs := []float64{0.1, 0.3, 0.5, 0.9, 1.0}
			g.emit(Step{Op: "fill", F: fs[r.Intn(len(fs))]})
		}
		n := 1 + r.Intn(2*cfg.OpsPerTx)
		for i := 0; i < n; i++ {
			g.oneOp()
			if r.Intn(25) == 0 {
				g.emit(Step{Op: "dump"}) // own writes
			}
		}
		if r.Intn(3) == 0 {
			g.emit(Step{Op: "dump"})
		}
		if r.Float64() < cfg.Rollback {
			how := ""
			if managed && r.Intn(2) == 0 {
				how = "panic"
			}
			g.emit(Step{Op: "rollback", How: how})
		} else if !managed && cfg.FailCommit > 0 && r.Float64() < cfg.FailCommit {
			// the k-th I/O call of this commit fails once (an ordinary commit if it issues fewer calls);
			// for page writes sometimes after the first 512 bytes
			how := fmt.Sprintf("fail:%d", 1+r.Intn(14))
			if r.Intn(3) == 0 {
				how += ":512"
			}
			g.emit(Step{Op: "commit", How: how})
		} else {
			g.emit(Step{Op: "commit"})
		}
		if r.Intn(6) == 0 {
			g.emit(Step{Op: "probeClosed"})
		}
		if r.Float64() < cfg.ROProbe {
			g.emit(Step{Op: "begin", W: false})
			if p := g.anyPath(); p != nil {
				g.emit(Step{Op: "put", P: p, K: g.key(), V: g.val()})
				g.emit(Step{Op: "del", P: p, K: g.key()})
				g.emit(Step{Op: "create", P: p, N: r.Intn(6)})
				g.emit(Step{Op: "delBucket", P: p[:len(p)-1], N: p[len(p)-1]})
				g.emit(Step{Op: "nextSeq", P: p})
				g.emit(Step{Op: "setSeq", P: p, U: 7})
				g.emit(Step{Op: "cursor", P: p, Cur: g.cursorCalls(1 + r.Intn(20))})
				g.emit(Step{Op: "stats", P: p})
			}
			g.emit(Step{Op: "rollback"})
		}
		if cfg.HeldReaders > 0 {
			if nheld < 3 && r.Float64() < cfg.HeldReaders {
				g.emit(Step{Op: "heldBegin"})
				nheld++
			}
			if nheld > 0 && r.Intn(3) == 0 {
				g.emit(Step{Op: "heldEnd", N: r.Intn(3)})
				nheld--
			}
		}
		if r.Float64() < cfg.Reopen {
			g.emit(Step{Op: "close"})
			nheld = 0
			o := opts
			if cfg.OptSched != nil {
				o = cfg.OptSched(r)
				if o.PageSize == 0 {
					o.PageSize = cfg.PageSize
				}
				if cfg.HeldReaders > 0 {
					o.InitialMmapSize, o.AllocSize = opts.InitialMmapSize, opts.AllocSize
				}
			}
			g.emit(Step{Op: "reopen", Opts: &o})
		}
	}
	g.emit(Step{Op: "close"})
	return g.p
}

// GenerateCursor builds a cursor-centred case (C05): a bucket state of a
// chosen size class, then a write transaction that puts and deletes (whole
// ranges: front, middle, end, everything) and runs many cursor call
// sequences over the resulting mix of on-disk pages and materialised,
// possibly empty, nodes; the same sequences run again after commit in a read
// transaction.
func GenerateCursor(seed int64, caseNo int, pageSize int, opts OpenOpts) *Program {
	r := rand.New(rand.NewSource(seed*1000003 + int64(caseNo)*7919 + 5))
	sizes := []int{0, 1, 3, 12, 60, 250, 900, 2500}
	n := sizes[caseNo%len(sizes)]
	if pageSize >= 4096 && n > 900 {
		n = 900
	}
	cfg := Config{Profile: "cursor", PageSize: pageSize, KeySpace: n + 10, NoBigKeys: true}
	cfg.defaults()
	g := &genState{r: r, cfg: cfg, sim: NewSim(), p: &Program{Name: "cursor", Seed: seed, Case: caseNo}}
	opts.PageSize = pageSize
	g.emit(Step{Op: "open", Opts: &opts})
	g.emit(Step{Op: "begin", W: true})
	g.emit(Step{Op: "create", N: 0})
	p := []int{0}
	vlen := []int{0, 8, 40, 100, pageSize / 6}[r.Intn(5)]
	for i := 0; i < n; i++ {
		g.emit(Step{Op: "put", P: p, K: &K{ID: i}, V: &V{Seed: uint32(i), Len: vlen}})
	}
	// nested buckets among the keys
	nb := r.Intn(4)
	for i := 0; i < nb; i++ {
		g.emit(Step{Op: "create", P: p, N: 1 + r.Intn(9)})
	}
	g.emit(Step{Op: "commit"})
	for round := 0; round < 3; round++ {
		g.emit(Step{Op: "begin", W: true})
		// uncommitted edits
		ne := r.Intn(6)
		for e := 0; e < ne; e++ {
			switch r.Intn(10) {
			case 0, 1, 2, 3, 4, 5:
				lo, hi := r.Intn(n+1), r.Intn(n+1)
				switch r.Intn(6) {
				case 0:
					lo = 0
				case 1:
					hi = n + 5
				case 2:
					lo, hi = 0, n+5
				case 3: // narrow: exactly around one leaf's worth
					hi = lo + 5 + r.Intn(30)
				}
				if lo > hi {
					lo, hi = hi, lo
				}
				how := ""
				if r.Intn(3) == 0 {
					how = "cursor"
				}
				g.emit(Step{Op: "delRange", P: p, K: &K{ID: lo}, K2: &K{ID: hi, Len: 40}, How: how})
			case 6, 7:
				m := 1 + r.Intn(20)
				for i := 0; i < m; i++ {
					g.emit(Step{Op: "put", P: p, K: &K{ID: r.Intn(n + 10)}, V: &V{Seed: r.Uint32(), Len: vlen}})
				}
			case 8:
				g.emit(Step{Op: "del", P: p, K: &K{ID: r.Intn(n + 10)}})
			case 9:
				g.emit(Step{Op: "create", P: p, N: 1 + r.Intn(9)})
			}
		}
		g.fullScan(p)
		seqs := 12
		for s := 0; s < seqs; s++ {
			g.emit(Step{Op: "cursor", P: p, Cur: g.cursorCalls(1 + r.Intn(40))})
		}
		g.emit(Step{Op: "forEach", P: p})
		if r.Intn(3) == 0 {
			g.emit(Step{Op: "cursor", Cur: g.cursorCalls(1 + r.Intn(10))}) // root cursor
		}
		if r.Intn(4) == 0 {
			g.emit(Step{Op: "rollback"})
		} else {
			g.emit(Step{Op: "commit"})
		}
		g.emit(Step{Op: "begin", W: false})
		g.fullScan(p)
		for s := 0; s < 5; s++ {
			g.emit(Step{Op: "cursor", P: p, Cur: g.cursorCalls(1 + r.Intn(40))})
		}
		g.emit(Step{Op: "rollback"})
	}
	g.emit(Step{Op: "close"})
	return g.p
}

// GenerateBigFree builds a history whose freelist spans several pages (more
// free ids than fit one page): a large bucket is filled and deleted, then
// small transactions follow while the long freelist is rewritten on every
// commit. Multi-page freelists need a contiguous run for every commit.
func GenerateBigFree(seed int64, caseNo int, pageSize int, opts OpenOpts) *Program {
	r := rand.New(rand.NewSource(seed*1000003 + int64(caseNo)*7919 + 9))
	cfg := Config{Profile: "mixed", PageSize: pageSize, KeySpace: 40, NoBigKeys: true}
	cfg.defaults()
	g := &genState{r: r, cfg: cfg, sim: NewSim(), p: &Program{Name: "bigfree", Seed: seed, Case: caseNo}}
	opts.PageSize = pageSize
	g.emit(Step{Op: "open", Opts: &opts})
	idsPerPage := (pageSize - 16) / 8
	n := idsPerPage*2 + idsPerPage/2 + r.Intn(idsPerPage)
	g.emit(Step{Op: "begin", W: true})
	g.emit(Step{Op: "create", N: 0})
	g.emit(Step{Op: "create", N: 1})
	for i := 0; i < n; i++ {
		g.emit(Step{Op: "put", P: []int{0}, K: &K{ID: i}, V: &V{Seed: uint32(i), Len: pageSize * 6 / 10}})
	}
	g.emit(Step{Op: "commit"})
	g.emit(Step{Op: "begin", W: true})
	g.emit(Step{Op: "delBucket", N: 0})
	g.emit(Step{Op: "put", P: []int{1}, K: &K{ID: 1}, V: &V{Seed: 1, Len: 20}})
	g.emit(Step{Op: "commit"})
	for t := 0; t < 5; t++ {
		g.emit(Step{Op: "begin", W: true})
		m := 1 + r.Intn(4)
		for i := 0; i < m; i++ {
			g.emit(Step{Op: "put", P: []int{1}, K: &K{ID: r.Intn(20)}, V: &V{Seed: r.Uint32(), Len: r.Intn(60)}})
		}
		if r.Intn(3) == 0 {
			g.emit(Step{Op: "del", P: []int{1}, K: &K{ID: r.Intn(20)}})
		}
		g.emit(Step{Op: "commit"})
		if t == 2 && r.Intn(2) == 0 {
			g.emit(Step{Op: "close"})
			o := opts
			g.emit(Step{Op: "reopen", Opts: &o})
		}
	}
	g.emit(Step{Op: "close"})
	return g.p
}

// GenerateManyBuckets builds a case with hundreds of sibling buckets under one parent (the root, a top-level
// bucket or a nested one): leaf and branch pages full of bucket elements, most of them inline, some paged,
// with sequences; then mass deletion, moves to another parent, keys interleaved with the bucket names, deletion
// of the whole parent, re-creation - across commits, rollbacks and reopens, with cursor scans over the parent.
func GenerateManyBuckets(seed int64, caseNo int, pageSize int, opts OpenOpts) *Program {
	r := rand.New(rand.NewSource(seed*1000003 + int64(caseNo)*7919 + 13))
	cfg := Config{Profile: "mixed", PageSize: pageSize, KeySpace: 60, NoBigKeys: true}
	cfg.defaults()
	g := &genState{r: r, cfg: cfg, sim: NewSim(), p: &Program{Name: "manybuckets", Seed: seed, Case: caseNo}}
	opts.PageSize = pageSize
	g.emit(Step{Op: "open", Opts: &opts})
	var parent []int // nil = the root
	switch r.Intn(3) {
	case 1:
		parent = []int{0}
	case 2:
		parent = []int{0, 2}
	}
	endTx := func() {
		if r.Intn(6) == 0 {
			g.emit(Step{Op: "rollback"})
		} else {
			g.emit(Step{Op: "commit"})
		}
		if r.Intn(4) == 0 {
			g.emit(Step{Op: "close"})
			o := opts
			g.emit(Step{Op: "reopen", Opts: &o})
		}
	}
	ensureParents := func() {
		g.emit(Step{Op: "createIf", N: 0})
		g.emit(Step{Op: "createIf", N: 1})
		g.emit(Step{Op: "createIf", P: []int{0}, N: 2})
	}
	sub := func(i int) []int { return append(append([]int{}, parent...), 1000+i) }
	nb := 120 + r.Intn(380)
	// tx 1: create the siblings
	g.emit(Step{Op: "begin", W: true})
	ensureParents()
	for i := 0; i < nb; i++ {
		g.emit(Step{Op: "create", P: parent, N: 1000 + i})
		switch r.Intn(8) {
		case 0: // paged child
			for k := 0; k < 20+r.Intn(40); k++ {
				g.emit(Step{Op: "put", P: sub(i), K: &K{ID: k}, V: &V{Seed: r.Uint32(), Len: pageSize / 16}})
			}
		case 1, 2, 3: // inline child with a few keys
			for k := 0; k < 1+r.Intn(3); k++ {
				g.emit(Step{Op: "put", P: sub(i), K: &K{ID: r.Intn(50)}, V: &V{Seed: r.Uint32(), Len: r.Intn(30)}})
			}
		}
		if r.Intn(5) == 0 {
			g.emit(Step{Op: "setSeq", P: sub(i), U: uint64(i) + 1})
		}
		if len(parent) > 0 && r.Intn(10) == 0 {
			g.emit(Step{Op: "put", P: parent, K: &K{ID: r.Intn(60)}, V: &V{Seed: r.Uint32(), Len: r.Intn(80)}}) // plain keys between bucket elements
		}
	}
	g.fullScan(parent)
	endTx()
	// tx 2: delete every third, move some to another parent, touch others (dirty nodes before later deletes)
	g.emit(Step{Op: "begin", W: true})
	ensureParents()
	for i := 0; i < nb; i++ {
		switch {
		case i%3 == 0:
			g.emit(Step{Op: "delBucket", P: parent, N: 1000 + i})
		case i%11 == 1:
			g.emit(Step{Op: "move", P: parent, N: 1000 + i, D: []int{1}})
		case i%7 == 2:
			g.emit(Step{Op: "put", P: sub(i), K: &K{ID: 77}, V: &V{Seed: r.Uint32(), Len: 40}})
		}
	}
	if g.sim.Cur.At(Path(parent)) != nil {
		g.emit(Step{Op: "cursor", P: parent, Cur: g.cursorCalls(30)})
	}
	g.fullScan(parent)
	endTx()
	// tx 3: read-only look, then delete the whole parent (or, for the root, a run of siblings) and re-create a few
	g.emit(Step{Op: "begin", W: false})
	g.fullScan(parent)
	g.emit(Step{Op: "dump"})
	g.emit(Step{Op: "rollback"})
	g.emit(Step{Op: "begin", W: true})
	ensureParents()
	if r.Intn(2) == 0 {
		// dirty the parent first: the deletion then walks materialised nodes
		g.emit(Step{Op: "createIf", P: parent, N: 1000 + nb + 1})
	}
	if len(parent) > 0 && r.Intn(3) > 0 {
		g.emit(Step{Op: "delBucket", P: parent[:len(parent)-1], N: parent[len(parent)-1]})
		g.emit(Step{Op: "createIf", P: parent[:len(parent)-1], N: parent[len(parent)-1]})
	} else {
		for i := 0; i < nb; i += 1 + r.Intn(2) {
			g.emit(Step{Op: "delBucket", P: parent, N: 1000 + i})
		}
	}
	for i := 0; i < 10; i++ {
		g.emit(Step{Op: "createIf", P: parent, N: 1000 + r.Intn(nb)})
	}
	g.fullScan(parent)
	endTx()
	g.emit(Step{Op: "begin", W: true})
	g.emit(Step{Op: "createIf", N: 1})
	g.emit(Step{Op: "put", P: []int{1}, K: &K{ID: 1}, V: &V{Seed: 1, Len: 10}})
	g.emit(Step{Op: "commit"})
	g.emit(Step{Op: "close"})
	return g.p
}
