package gen

import (
	"sort"

	"go.etcd.io/bbolt/verifh/model"
)

// Sim interprets program steps over the reference model. The generator uses
// it to pick meaningful operations, the executor to know what bbolt must
// return; both therefore share one definition of the expected behaviour.
type Sim struct {
	Committed *model.Bucket
	Cur       *model.Bucket // state seen by the open transaction
	InTx      bool
	Writable  bool
	IsOpen    bool
	ReadOnly  bool // database opened read-only
}

func NewSim() *Sim { return &Sim{Committed: model.New()} }

// Exp is what the model expects from one step.
type Exp struct {
	Err     string
	Present bool
	Val     []byte
	Seq     uint64
	Cur     []model.CurRes
	NilBkt  bool // the bucket path does not resolve
	NilDst  bool // the destination path of a move does not resolve
}

func (s *Sim) wr() string {
	if !s.Writable {
		return model.ErrTxNotWritable
	}
	return model.OK
}

// KeysInRange returns the plain keys of b between lo and hi (inclusive), sorted.
func KeysInRange(b *model.Bucket, lo, hi string) []string {
	var out []string
	for k := range b.KV {
		if k >= lo && k <= hi {
			out = append(out, k)
		}
	}
	sort.Strings(out)
	return out
}

// Apply advances the model by one step and returns the expectation.
func (s *Sim) Apply(st *Step) Exp {
	var e Exp
	switch st.Op {
	case "open", "reopen":
		s.IsOpen = true
		s.ReadOnly = st.Opts != nil && st.Opts.ReadOnly
		s.InTx = false
		return e
	case "close":
		s.IsOpen = false
		s.InTx = false
		return e
	case "begin":
		if st.W && s.ReadOnly {
			e.Err = model.ErrDatabaseRO
			return e
		}
		s.InTx = true
		s.Writable = st.W
		if st.W {
			s.Cur = s.Committed.Clone()
		} else {
			s.Cur = s.Committed
		}
		return e
	case "commit":
		if s.Writable {
			s.Committed = s.Cur
		}
		s.InTx = false
		return e
	case "rollback":
		s.InTx = false
		return e
	}
	if !s.InTx {
		return e
	}
	b := s.Cur.At(Path(st.P))
	if b == nil {
		e.NilBkt = true
		return e
	}
	switch st.Op {
	case "create":
		if e.Err = s.wr(); e.Err == model.OK {
			e.Err = b.CreateBucket(BucketName(st.N))
		}
	case "createIf":
		if e.Err = s.wr(); e.Err == model.OK {
			e.Err = b.CreateBucketIfNotExists(BucketName(st.N))
		}
	case "delBucket":
		if e.Err = s.wr(); e.Err == model.OK {
			e.Err = b.DeleteBucket(BucketName(st.N))
		}
	case "move":
		if e.Err = s.wr(); e.Err == model.OK {
			if s.Cur.At(Path(st.D)) == nil {
				e.NilDst = true
				return e
			}
			e.Err = model.MoveBucket(s.Cur, Path(st.P), BucketName(st.N), Path(st.D))
		}
	case "put":
		if e.Err = s.wr(); e.Err == model.OK {
			e.Err = b.Put(string(st.K.Bytes()), st.V.Bytes())
		}
	case "del":
		if e.Err = s.wr(); e.Err == model.OK {
			e.Err = b.Delete(string(st.K.Bytes()))
		}
	case "delRange":
		if e.Err = s.wr(); e.Err == model.OK {
			for _, k := range KeysInRange(b, string(st.K.Bytes()), string(st.K2.Bytes())) {
				delete(b.KV, k)
			}
		}
	case "get":
		e.Val, e.Present = b.Get(string(st.K.Bytes()))
	case "seq":
		e.Seq = b.Seq
	case "setSeq":
		if e.Err = s.wr(); e.Err == model.OK {
			b.Seq = st.U
		}
	case "nextSeq":
		if e.Err = s.wr(); e.Err == model.OK {
			b.Seq++
			e.Seq = b.Seq
		}
	case "cursor":
		c := model.NewCursor(b)
		for _, call := range st.Cur {
			var r model.CurRes
			switch call.C {
			case "F":
				r = c.First()
			case "L":
				r = c.Last()
			case "N":
				r = c.Next()
			case "P":
				r = c.Prev()
			case "S":
				r = c.Seek(string(call.K.Bytes()))
			case "D":
				// Seek to the key, delete what is under the cursor, cursor is dead afterwards
				r = c.Seek(string(call.K.Bytes()))
				if !s.Writable {
					r = model.CurRes{Key: model.ErrTxNotWritable}
				} else if r.Present && r.IsBucket {
					r = model.CurRes{Key: model.ErrIncompatible}
				} else {
					if r.Present {
						delete(b.KV, r.Key)
					}
					r = model.CurRes{Key: model.OK}
				}
				c = model.NewCursor(b)
			}
			e.Cur = append(e.Cur, r)
		}
	case "forEach":
		for _, k := range b.Keys() {
			if _, isB := b.Sub[k]; isB {
				e.Cur = append(e.Cur, model.CurRes{Present: true, Key: k, IsBucket: true})
			} else {
				e.Cur = append(e.Cur, model.CurRes{Present: true, Key: k, Val: b.KV[k]})
			}
		}
	}
	return e
}
