// Package crash builds, from a recorded I/O trace, the file images a disk
// could legally hold if the machine died at some instant: the image at the
// last completed sync plus any sector-granular subset of the writes issued
// since (plus or minus a pending truncate).
package crash

import (
	"crypto/sha256"
	"fmt"
	"math/rand"

	"go.etcd.io/bbolt/verifh/iotrace"
)

const Sector = 512

// Ctx is the transaction context of a window: which state was acknowledged,
// which is in flight.
type Ctx struct {
	A        string // state id of the last acknowledged state
	I        string // state id of the in-flight state ("" if none)
	InflTxid uint64 // txid of the in-flight commit (0 if unknown / none)
	Where    string
}

// Image is one crash image.
type Image struct {
	Data   []byte
	Ctx    Ctx
	Window int
	Kind   string // how the subset was chosen
	Desc   string
}

type pending struct {
	trunc bool
	off   int64
	data  []byte
	size  int64 // truncate
}

// Builder replays a trace.
type Builder struct {
	Durable   []byte
	PageSize  int
	R         int // random subsets per window
	ExhMax    int // exhaustive over whole writes when the window has at most this many
	CapPerWin int
	Rng       *rand.Rand
	Fidelity  int      // barriers at which the durable image matched the real file
	Mismatch  []string // fidelity failures
	Windows   int
	WinKinds  map[string]int
	seen      map[[32]byte]bool
	Dups      int
}

func NewBuilder(initial []byte, pageSize int, seed int64) *Builder {
	return &Builder{Durable: append([]byte(nil), initial...), PageSize: pageSize, R: 8, ExhMax: 6, CapPerWin: 200,
		Rng: rand.New(rand.NewSource(seed)), seen: map[[32]byte]bool{}, WinKinds: map[string]int{}}
}

func apply(img []byte, p pending, sectors []bool) []byte {
	if p.trunc {
		if int64(len(img)) > p.size {
			return img[:p.size]
		}
		return append(img, make([]byte, p.size-int64(len(img)))...)
	}
	n := (len(p.data) + Sector - 1) / Sector
	for s := 0; s < n; s++ {
		if sectors != nil && !sectors[s] {
			continue
		}
		lo := s * Sector
		hi := lo + Sector
		if hi > len(p.data) {
			hi = len(p.data)
		}
		end := p.off + int64(hi)
		if int64(len(img)) < end {
			img = append(img, make([]byte, end-int64(len(img)))...)
		}
		copy(img[p.off+int64(lo):end], p.data[lo:hi])
	}
	return img
}

func nsect(p pending) int {
	if p.trunc {
		return 1
	}
	return (len(p.data) + Sector - 1) / Sector
}

// choice: per pending op nil = all sectors, empty-but-non-nil handled via include flag
type choice struct {
	include []bool   // per op
	sectors [][]bool // per op, nil = all
}

func (b *Builder) build(u []pending, c choice) []byte {
	img := append([]byte(nil), b.Durable...)
	for i, p := range u {
		if !c.include[i] {
			continue
		}
		var s []bool
		if c.sectors != nil {
			s = c.sectors[i]
		}
		img = apply(img, p, s)
	}
	return img
}

func (b *Builder) emit(out func(Image) bool, u []pending, c choice, ctx Ctx, kind, desc string) bool {
	img := b.build(u, c)
	h := sha256.Sum256(img)
	if b.seen[h] {
		b.Dups++
		return true
	}
	b.seen[h] = true
	return out(Image{Data: img, Ctx: ctx, Window: b.Windows, Kind: kind, Desc: desc})
}

func all(n int, v bool) []bool {
	s := make([]bool, n)
	for i := range s {
		s[i] = v
	}
	return s
}

// metaFieldBoundaries: byte offsets inside a meta page where a tear is tried.
var metaFieldBoundaries = []int{8, 10, 12, 16, 20, 24, 28, 32, 40, 48, 56, 64, 72}

// window enumerates crash images for the unsynced operations u.
func (b *Builder) window(u []pending, ctx Ctx, out func(Image) bool) bool {
	n := len(u)
	if n == 0 {
		return true
	}
	b.Windows++
	kind := "data"
	metaOnly := n == 1 && !u[0].trunc && u[0].off < int64(2*b.PageSize)
	hasMeta, hasTrunc := false, false
	for _, p := range u {
		if p.trunc {
			hasTrunc = true
		} else if p.off < int64(2*b.PageSize) {
			hasMeta = true
		}
	}
	switch {
	case metaOnly:
		kind = "meta"
	case hasMeta:
		kind = "data+meta"
	case hasTrunc:
		kind = "truncate"
	}
	b.WinKinds[kind]++
	count := 0
	em := func(c choice, k, d string) bool {
		count++
		return b.emit(out, u, c, ctx, kind+":"+k, d)
	}
	// none / all
	if !em(choice{include: all(n, false)}, "none", "nothing persisted") {
		return false
	}
	if !em(choice{include: all(n, true)}, "all", "everything persisted") {
		return false
	}
	if metaOnly {
		p := u[0]
		ns := nsect(p)
		if ns <= 8 {
			for mask := 1; mask < (1<<ns)-1; mask++ {
				s := make([]bool, ns)
				for i := range s {
					s[i] = mask&(1<<i) != 0
				}
				if !em(choice{include: []bool{true}, sectors: [][]bool{s}}, "meta-sectors", fmt.Sprintf("meta sectors mask %b", mask)) {
					return false
				}
			}
		} else {
			for i := 0; i < ns; i++ { // each sector alone, all but each
				s := all(ns, false)
				s[i] = true
				if !em(choice{include: []bool{true}, sectors: [][]bool{s}}, "meta-sectors", fmt.Sprintf("only meta sector %d", i)) {
					return false
				}
				s2 := all(ns, true)
				s2[i] = false
				if !em(choice{include: []bool{true}, sectors: [][]bool{s2}}, "meta-sectors", fmt.Sprintf("all but meta sector %d", i)) {
					return false
				}
			}
		}
		// torn inside the meaningful bytes (harsher than the sector model)
		for _, bd := range metaFieldBoundaries {
			if bd >= len(p.data) {
				continue
			}
			for dir := 0; dir < 2; dir++ {
				img := append([]byte(nil), b.Durable...)
				end := p.off + int64(len(p.data))
				if int64(len(img)) < end {
					img = append(img, make([]byte, end-int64(len(img)))...)
				}
				if dir == 0 { // new prefix, old suffix
					copy(img[p.off:p.off+int64(bd)], p.data[:bd])
				} else { // old prefix, new suffix
					copy(img[p.off+int64(bd):end], p.data[bd:])
				}
				h := sha256.Sum256(img)
				if b.seen[h] {
					b.Dups++
					continue
				}
				b.seen[h] = true
				count++
				if !out(Image{Data: img, Ctx: ctx, Window: b.Windows, Kind: "meta:torn-field", Desc: fmt.Sprintf("meta torn at byte %d dir %d", bd, dir)}) {
					return false
				}
			}
		}
		return true
	}
	// each alone, all but one
	for i := 0; i < n && count < b.CapPerWin; i++ {
		inc := all(n, false)
		inc[i] = true
		if !em(choice{include: inc}, "alone", fmt.Sprintf("only op %d", i)) {
			return false
		}
		inc2 := all(n, true)
		inc2[i] = false
		if !em(choice{include: inc2}, "all-but-one", fmt.Sprintf("all but op %d", i)) {
			return false
		}
	}
	// prefixes and suffixes in issue order, and a partially written last op of each prefix
	for k := 1; k < n && count < b.CapPerWin; k++ {
		inc := all(n, false)
		for i := 0; i < k; i++ {
			inc[i] = true
		}
		if !em(choice{include: inc}, "prefix", fmt.Sprintf("first %d ops", k)) {
			return false
		}
		suf := all(n, false)
		for i := k; i < n; i++ {
			suf[i] = true
		}
		if !em(choice{include: suf}, "suffix", fmt.Sprintf("last %d ops", n-k)) {
			return false
		}
	}
	for k := 0; k < n && count < b.CapPerWin; k++ {
		ns := nsect(u[k])
		if u[k].trunc || ns < 2 {
			continue
		}
		for _, j := range []int{1, ns / 2, ns - 1} {
			if j <= 0 || j >= ns {
				continue
			}
			inc := all(n, false)
			secs := make([][]bool, n)
			for i := 0; i <= k; i++ {
				inc[i] = true
			}
			s := all(ns, false)
			for x := 0; x < j; x++ {
				s[x] = true
			}
			secs[k] = s
			if !em(choice{include: inc, sectors: secs}, "inside-write", fmt.Sprintf("ops 0..%d, op %d only its first %d of %d sectors", k-1, k, j, ns)) {
				return false
			}
		}
	}
	// exhaustive over whole ops for small windows
	if n <= b.ExhMax {
		for mask := 1; mask < (1<<n)-1; mask++ {
			inc := make([]bool, n)
			for i := range inc {
				inc[i] = mask&(1<<i) != 0
			}
			if !em(choice{include: inc}, "exhaustive-ops", fmt.Sprintf("op mask %b", mask)) {
				return false
			}
		}
	}
	// random sector subsets
	for r := 0; r < b.R; r++ {
		dens := []float64{0.1, 0.5, 0.9}[r%3]
		inc := all(n, true)
		secs := make([][]bool, n)
		for i, p := range u {
			if p.trunc {
				inc[i] = b.Rng.Float64() < dens
				continue
			}
			s := make([]bool, nsect(p))
			for x := range s {
				s[x] = b.Rng.Float64() < dens
			}
			secs[i] = s
		}
		if !em(choice{include: inc, sectors: secs}, "random-sectors", fmt.Sprintf("random sector subset density %.1f", dens)) {
			return false
		}
	}
	return true
}

// Replay walks the trace. ctxAt returns the context in force for a window given
// the markers seen so far; out receives every image and returns false to stop.
func (b *Builder) Replay(events []iotrace.Event, onMarker func(e iotrace.Event), ctx func() Ctx, out func(Image) bool) {
	var u []pending
	var winCtx Ctx
	for _, e := range events {
		switch {
		case len(e.Op) > 7 && e.Op[:7] == "marker:":
			onMarker(e)
		case e.Op == "write" && e.Err == "":
			if len(u) == 0 {
				winCtx = ctx()
			}
			u = append(u, pending{off: e.Off, data: e.Data})
		case e.Op == "truncate" && e.Err == "":
			if len(u) == 0 {
				winCtx = ctx()
			}
			u = append(u, pending{trunc: true, size: e.Size})
		case (e.Op == "fdatasync" || e.Op == "fsync") && e.Err == "":
			if !b.window(u, winCtx, out) {
				return
			}
			for _, p := range u {
				b.Durable = apply(b.Durable, p, nil)
			}
			u = nil
			// fidelity: the durable image must equal the real file at this barrier
			if e.Note != "" {
				h := sha256.Sum256(b.Durable)
				if fmt.Sprintf("sha=%x len=%d", h[:8], len(b.Durable)) == e.Note {
					b.Fidelity++
				} else {
					b.Mismatch = append(b.Mismatch, fmt.Sprintf("at event #%d (%s): replayed %s, real file %s", e.Seq, e.Op, fmt.Sprintf("sha=%x len=%d", h[:8], len(b.Durable)), e.Note))
				}
			}
			// the durable image itself (crash right after the barrier)
			c := ctx()
			c.Where = "after " + e.Op
			hh := sha256.Sum256(b.Durable)
			if !b.seen[hh] {
				b.seen[hh] = true
				if !out(Image{Data: append([]byte(nil), b.Durable...), Ctx: c, Window: b.Windows, Kind: "barrier", Desc: "exactly the synced image"}) {
					return
				}
			}
		}
	}
	// writes never followed by a barrier (should not happen with syncing on)
	if len(u) > 0 {
		b.window(u, winCtx, out)
	}
}
